#!/bin/bash
# tools/seeds_all.sh : re-run every kept seeded change against the checks that are recorded to catch it
cd "$(dirname "$0")/.."
# optional arguments: <slice> <nslices> (run every nslices-th seed, for
# parallel use: tools/seeds_all.sh 0 2 & tools/seeds_all.sh 1 2)
SL=${1:-0}; NSL=${2:-1}; IDX=-1
for d in seeded/*/; do
  IDX=$((IDX+1)); [ $((IDX % NSL)) -eq "$SL" ] || continue
  name=$(basename "$d")
  checks=$(python3 -c "import json;print(' '.join(json.load(open('$d/meta.json'))['checks_that_catch_it']))")
  # ONLY=<ID>: just the seeds recorded for that check, and only that check
  if [ -n "${ONLY:-}" ]; then case " $checks " in *" $ONLY "*) checks="$ONLY";; *) continue;; esac; fi
  wt="$(mktemp -d /tmp/nv_sd_XXXXXX)"; rmdir "$wt"
  git -C /repo worktree add -q --detach "$wt" HEAD || continue
  cp /repo/src/nanite/_version.py "$wt/src/nanite/_version.py"
  if ! git -C "$wt" apply "/verif/$d/patch.diff" 2>/dev/null; then
    if ! git -C "$wt" apply -3 "/verif/$d/patch.diff" 2>/dev/null; then echo "$name PATCH-DOES-NOT-APPLY"; git -C /repo worktree remove --force "$wt"; continue; fi
  fi
  demo=$(cd /tmp && NANITE_WT="$wt" PYTHONPATH="$wt/src" timeout 600 /venv/bin/python "/verif/$d/demo.py" >/dev/null 2>&1; echo $?)
  res=""
  for id in $checks; do
    NANITE_REPO="$wt" VERIF_EVIDENCE_OFF=1 ./check "$id" --tier quick >/dev/null 2>&1; res="$res $id:rc=$?"
  done
  echo "$name demo_exit=$demo$res"
  git -C /repo worktree remove --force "$wt" >/dev/null 2>&1
done
