#!/bin/bash
# tools/mutant.sh <patch.diff> [--suite] <ID> [<ID>...]
# Apply a patch to a scratch worktree of /repo (HEAD + uncommitted changes are
# NOT included: HEAD only), run the quick checks of the given properties
# against it, remove the worktree.  Prints one line per check.
set -u
patch="$(realpath "$1")"; shift
suite=0
if [ "${1:-}" = "--suite" ]; then suite=1; shift; fi
wt="$(mktemp -d /tmp/nv_mut_XXXXXX)"
rmdir "$wt"
git -C /repo worktree add -q --detach "$wt" HEAD || exit 3
cleanup() { git -C /repo worktree remove --force "$wt" >/dev/null 2>&1; rm -rf "$wt"; }
trap cleanup EXIT
cp /repo/src/nanite/_version.py "$wt/src/nanite/_version.py"
if ! git -C "$wt" apply "$patch"; then echo "PATCH-DOES-NOT-APPLY $patch"; exit 3; fi
if [ $suite = 1 ]; then
  (cd "$wt" && PYTHONPATH="$wt/src" /venv/bin/python -m pytest -q -p no:cacheprovider -n 12 -x 2>&1 | tail -1)
fi
for id in "$@"; do
  out="$(cd "$(dirname "$0")/.." && NANITE_REPO="$wt" VERIF_EVIDENCE_OFF=1 ./check "$id" --tier "${TIER:-quick}" 2>&1)"
  rc=$?
  echo "== $(basename "$patch") $id rc=$rc $(echo "$out" | grep -c '^VIOLATION') violation line(s)"
  echo "$out" | grep -E "violation \[|INCONCLUSIVE" | head -4
done
