#!/usr/bin/env python3
"""Regenerate MANIFEST.json from the table below (keeps it valid at all times).

usage: python3 tools/mkmanifest.py
"""
import json
import pathlib

HERE = pathlib.Path(__file__).resolve().parent.parent

BASELINE = ("cd /repo && /venv/bin/python -m pytest -ra -q -p no:cacheprovider "
            "--timeout=900 --continue-on-collection-errors")

# id -> (level category, technique, level text, level note, design ref)
CHECKS = {}
NOT_BUILT = {}


def add(pid, technique, text, note, category="exploration"):
    CHECKS[pid] = dict(technique=technique, text=text, note=note,
                       category=category)


exec((HERE / "tools" / "manifest_data.py").read_text())

props = [json.loads(l) for l in (HERE / "properties.jsonl").read_text()
         .splitlines() if l.strip()]
checks = []
na = []
for p in props:
    pid = p["id"]
    if pid in CHECKS:
        c = CHECKS[pid]
        checks.append({
            "property_id": pid,
            "quick_cmd": "./check %s --tier quick" % pid,
            "thorough_cmd": "./check %s --tier thorough" % pid,
            "evidence_file": "evidence/%s.json" % pid,
            "replay_cmd_template": "./check %s --replay {path}" % pid,
            "engine": "nanite-runtime-monitors",
            "level_claimed": {"category": c["category"], "text": c["text"],
                              "design_ref": "DESIGN.md section 2, %s" % pid},
            "level_note": c["note"],
            "technique": c["technique"],
        })
    else:
        na.append({"property_id": pid,
                   "reason": NOT_BUILT.get(pid, "check not built yet (work in "
                                           "progress); runtime monitoring does "
                                           "apply, see DESIGN.md")})

manifest = {
    "version": 1,
    "setup_cmd": "/venv/bin/python -c \"import nanite, lmfit, h5py, sklearn, "
                 "afmformats; print('ok', nanite.__file__)\"",
    "hooks": {
        "guard": "NANITE_VERIF",
        "enable": "no source hooks: all monitors are attached from /verif at "
                  "run time (wrappers on class/module attributes and registry "
                  "entries, sys.monitoring, audit hooks); ./check sets "
                  "NANITE_VERIF=1 and PYTHONPATH=/repo/src so the working "
                  "tree is what runs",
        "baseline_off_cmd": BASELINE,
        "source_commits": [],
        "add_only": True,
    },
    "engines": [{
        "name": "nanite-runtime-monitors",
        "path": "vm/",
        "serves_properties": sorted(CHECKS),
        "kind_free_text": "runtime monitoring: real nanite code driven by "
                          "generated / hostile / replayed workloads in up to "
                          "16 subprocess shards; boundary wrappers record "
                          "events, deterministic oracles judge them",
    }],
    "checks": checks,
    "not_applicable": na,
    "notes": "Exit 0 held / 1 violation (VIOLATION line) / 2 inconclusive. "
             "known_findings.json lists genuine defects (status known) and "
             "repaired ones (status fixed, suppress nothing). See DESIGN.md.",
}
(HERE / "MANIFEST.json").write_text(json.dumps(manifest, indent=1) + "\n")
print("checks:", len(checks), "not_applicable:", len(na))
