import sys
pid=sys.argv[1]
import json
import os
HERE=os.path.dirname(os.path.abspath(__file__))
AVOID=json.load(open(os.path.join(HERE,"seed_used.json"))).get(pid[:3], [])
avoid_txt = ("\n\nOther people have already produced the following seeded changes for this property; yours must rest on a DIFFERENT idea and a different code site where possible:\n" + "\n".join(" - "+a for a in AVOID) + "\n") if AVOID else ""
for line in open(os.path.join(HERE,"..","..","properties.jsonl")):
    d=json.loads(line)
    if d["id"]==pid[:3]:
        prop="%s: %s\n\n%s\n\nQuantified over: %s\n" % (d["id"], d["title"], d["statement"], d["quantifier"]["text"])
print(f"""You are helping to evaluate a verification effort by producing a realistic, SUBTLE bug ("seeded change") in a Python library.

The library is AFM-analysis/nanite (force-indentation curve analysis: preprocessing, contact-point estimation, Hertz-model fitting via lmfit, ML quality rating). You have your OWN scratch git worktree of it at /tmp/seed_{pid} (sources under /tmp/seed_{pid}/src/nanite, tests under /tmp/seed_{pid}/tests). Work ONLY inside /tmp/seed_{pid} and /tmp/seedout_{pid}. Never read or touch /repo or /verif (they are off limits for this task), and do not look at other /tmp/seed_* directories.

Run python as:   cd /tmp/seed_{pid} && PYTHONPATH=/tmp/seed_{pid}/src /venv/bin/python ...
Run the test suite as: cd /tmp/seed_{pid} && PYTHONPATH=/tmp/seed_{pid}/src /venv/bin/python -m pytest -q -p no:cacheprovider -n 8
(no network access; everything needed is installed; check with `python -c "import nanite; print(nanite.__file__)"` that the worktree copy is the one imported).

This is the semantic property that the library is supposed to satisfy:

---
{prop}
---

{avoid_txt}
Your task: make a change to the library source (under /tmp/seed_{pid}/src/nanite only; do not edit tests) that BREAKS this property, while
 (1) the package still imports and the existing test suite still passes completely (176 tests), and
 (2) the change looks like a plausible mistake a maintainer could make (a refactoring slip, an "optimisation", a caching shortcut, an off-by-one, a wrong comparison, a forgotten copy/reset ...), not sabotage, and
 (3) the breakage needs something SPECIFIC to manifest - a particular multi-step sequence of operations, an unusual-but-legal input or option combination, a boundary coincidence, or two cooperating sites that each look fine alone - i.e. ordinary simple use (one curve, default settings, one fit) must still behave correctly. Do not make changes that ordinary use would expose at once.

Deliver in /tmp/seedout_{pid}/ :
  - patch.diff : output of `git -C /tmp/seed_{pid} diff` (source change only)
  - demo.py    : a small self-contained program (may build synthetic curves with nanite.indent.Indentation(data=dict_of_numpy_columns, metadata={{"path": pathlib.Path("x.h5"), "enum":0, "spring constant":0.05, "imaging mode":"force-distance", "point count":N}}) or use files in tests/data) that exits 0 on the ORIGINAL code and exits non-zero (assertion failure) WITH your change, demonstrating the property violation in terms of the property statement. It must be run as `PYTHONPATH=<worktree>/src /venv/bin/python demo.py` from any directory (use absolute paths to tests/data via an env var NANITE_WT defaulting to /tmp/seed_{pid} if you need data files).
  - meta.json  : {{"property": "{pid}", "summary": "...what was changed...", "needs_to_manifest": "...the specific sequence/input/coincidence required...", "why_tests_pass": "..."}}

Verify yourself before finishing: (a) full test suite passes with the change; (b) demo.py fails with the change; (c) save your change with `git diff > /tmp/seedout_{pid}/patch.diff`, revert it with `git apply -R /tmp/seedout_{pid}/patch.diff`, check that demo.py passes on the original, then re-apply with `git apply /tmp/seedout_{pid}/patch.diff`. Do NOT use `git stash` (the stash is shared between all worktrees of the repository and other people are working in sibling worktrees). Finally check that `git status --short` lists only the file(s) you changed. Leave the worktree WITH your change applied. Keep the change small (a few lines). Report briefly what you did.""")
