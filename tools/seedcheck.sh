#!/bin/bash
# tools/seedcheck.sh <seedout-dir> <ID> [<check IDs>...]
# Confirms a sub-agent's seeded change in a fresh scratch worktree of /repo HEAD
# (suite passes with it, demo fails with it and passes without), runs the given
# quick checks against it, stores it under /verif/seeded/<name>/.
set -u
src="$1"; name="$2"; shift 2
wt="$(mktemp -d /tmp/nv_seed_XXXXXX)"; rmdir "$wt"
git -C /repo worktree add -q --detach "$wt" HEAD || exit 3
cp /repo/src/nanite/_version.py "$wt/src/nanite/_version.py"
cleanup() { git -C /repo worktree remove --force "$wt" >/dev/null 2>&1; rm -rf "$wt"; }
trap cleanup EXIT
run_demo() { (cd /tmp && NANITE_WT="$wt" PYTHONPATH="$wt/src" timeout 600 /venv/bin/python "$src/demo.py" >/tmp/nv_demo_out.txt 2>&1; echo $?); }
orig=$(run_demo)
if ! git -C "$wt" apply "$src/patch.diff"; then echo "PATCH DOES NOT APPLY"; exit 3; fi
with=$(run_demo)
suite=$(cd "$wt" && PYTHONPATH="$wt/src" /venv/bin/python -m pytest -q -p no:cacheprovider -n 12 2>&1 | tail -1)
echo "demo on original: exit $orig ; demo with change: exit $with ; suite with change: $suite"
res=""
for id in "$@"; do
  out="$(cd /verif && NANITE_REPO="$wt" VERIF_EVIDENCE_OFF=1 ./check "$id" --tier "${TIER:-quick}" 2>&1)"; rc=$?
  echo "== $name check $id rc=$rc"; echo "$out" | grep -E "violation \[|INCONCLUSIVE|KNOWN" | cut -c1-260 | head -6
  res="$res $id:rc=$rc"
done
# re-check of an already kept seed: nothing is copied or overwritten
[ "$(readlink -f "$src")" = "$(readlink -f /verif/seeded/$name)" ] && exit 0
mkdir -p /verif/seeded/$name
cp "$src/patch.diff" "$src/demo.py" /verif/seeded/$name/
[ -f "$src/meta.json" ] && cp "$src/meta.json" /verif/seeded/$name/meta_agent.json
echo "demo_original_exit=$orig demo_changed_exit=$with suite=\"$suite\" checks=\"$res\"" > /verif/seeded/$name/confirm.txt
