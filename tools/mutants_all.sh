#!/bin/bash
# tools/mutants_all.sh : run every mutant / reverse fix patch against the check(s) that must catch it
cd "$(dirname "$0")/.."
declare -A T=(
 [revert-D11-autosort]="C14" [revert-D5-poc]="C08" [revert-D1-gcfk-mutation]="C11 C04 C03"
 [revert-D10-aliasing]="C10 C03" [revert-D2-rejected-remembered]="C06" [revert-D3-preproc-list-alias]="C10"
 [revert-D4-is_fitted]="C17 C09" [revert-D9-ts-compare]="C09" [revert-D16-cp-bounds-k]="C11 C04"
 [revert-D13-hash-concat]="C12" [revert-D6ab-load-model]="C18" [revert-D6c-model_func]="C18"
 [revert-D7a-allclose-atol]="C16" [revert-D14-empty-preproc]="C16" [revert-D7b-incomplete-entries]="C16"
 [revert-D8a-relative]="C19" [revert-D8b-if-left]="C19" [revert-D15-stale-multipass]="C04"
 [revert-D19-rating-cache-alias]="C10" [revert-D20-stored-preproc-not-applied]="C03"
 [c02-sphere-coeff]="C02" [c02-root-ge]="C02" [c13-no-reverse-back]="C13" [c13-weights-abs]="C13 C04"
 [c11-xmin-no-k]="C05 C11" [c04-chisqr-segment]="C04" [c05-range-open]="C05" [c12-drop-key]="C12"
 [c15-drop-rows-only]="C15" [c15-impute-all-rows]="C15" [c15-export-fmt]="C15" [c20-cp-unit]="C20"
 [c20-callback]="C20" [c07-offset-whole-curve]="C07" [c07-slope-jump]="C07" [c07-smooth-one-segment]="C07"
 [c08-abs-threshold]="C08" [c08-no-normalisation]="C08"
 [revert-D17-approach-assert]="C17" [revert-D21-maxima-argmin]="C17" [revert-D22-monotony-inf]="C17"
 [revert-D23-options-only-before-first-fit]="C03" [revert-D24-apply-skips-on-edited-stored-settings]="C03"
 [revert-D25-negative-zero-hash]="C12" [revert-D18-smoothing-stall]="C07" [revert-D27-params-initial-dropped-without-model-key]="C04"
)
for m in $(echo "${!T[@]}" | tr ' ' '\n' | sort); do
  for id in ${T[$m]}; do
    out=$(tools/mutant.sh mutants/$m.diff $id 2>&1 | grep -E "^==|PATCH")
    echo "$out" | sed -E 's/ [0-9]+ violation line\(s\)//'
  done
done
