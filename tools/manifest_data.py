# table consumed by tools/mkmanifest.py (add(...) per built check)
add("C14", "exhaustive execution of the real autosort/check_order/apply over "
    "all 1957 ordered step selections, judged by an independent validity "
    "predicate",
    "Exhaustive for the shipped step set: every ordered selection is run "
    "through the real functions; held means no selection disagreed with the "
    "independently coded rule. Right level because the input space is finite.",
    "Trusts the steps' own steps_required/steps_optional declarations as the "
    "specification; apply acceptance probed on one synthetic curve.")
add("C02", "differential runtime oracle: real model functions vs independent "
    "closed-form references and the exact parametric Sneddon sphere on "
    "generated parameter vectors and indentation arrays",
    "Held on the generated (model, parameters, array) executions: tens of "
    "thousands per quick run, all five models, both call paths, samples at "
    "and one ulp around the contact point, sphere depths up to R.",
    "Reference formulas transcribed from docstrings/publications; 64 eps "
    "round-off tolerance; says nothing about parameter vectors not generated.")
add("C13", "metamorphic runtime monitor on every registered model (shipped + "
    "4 harness-defined awkward models): reversal, exact dyadic translation, "
    "baseline additivity, power-of-two modulus scaling, continuity, monotony, "
    "argument fingerprints, residual definition",
    "Held on the generated executions of all registered models; exact "
    "(bitwise) comparisons wherever the arithmetic is exact by construction.",
    "Dyadic abscissa grid and power-of-two factors make bitwise comparison "
    "legitimate; third-party registry entries are logged, not judged.")
add("C08", "boundary taps inside POC_METHODS observing raw estimator returns; "
    "validity / invariance / accuracy / fallback oracle over generated model "
    "curves and enumerated + random degenerate arrays",
    "Held on the executions observed: thousands of curve estimates under "
    "scale/shift transforms and ~80k degenerate-array estimates per quick run "
    "(all arrays over {0,1,2} up to length 8 enumerated completely).",
    "Accuracy fractions and the clean-curve class are the harness' stated "
    "ones (see DESIGN C08); invariance judged for curves with a baseline.")
add("C01", "ground-truth recovery monitor: curves generated from independent "
    "reference formulas are fitted by the real code; tap on lmfit.minimize; "
    "noise bound from a Cramer-Rao computation on the reference Jacobian",
    "Held on the generated fits (all five models, both segments, three "
    "sampling laws, leastsq/nelder, four noise levels, weighting widths) "
    "inside the stated convergence basin.",
    "Basin, nelder domain (E >= 1 kPa), Clifford identifiability domain and "
    "the CRB constants are stated in DESIGN C01; ill-conditioned parameters "
    "are counted and skipped, not judged.")
add("C04", "post-fit consistency oracle on the real outputs (fit column vs "
    "reference model of the reported parameters, residual definition, "
    "chi-square, fixed/varied/expression parameters, NaN discipline) over a "
    "hostile fit workload incl. early-stopping minimisers and 0-6 point ranges",
    "Held (apart from the listed known finding) on every optimisation "
    "observed in the run; thousands of fits per quick run.",
    "Reference formulas for shipped models, module user function for harness "
    "models; initial parameters captured by value before the call.")
add("C05", "tap on lmfit.minimize records the abscissa actually optimised; "
    "compared bytewise with k*x[fit range]; masks recomputed from the stated "
    "closed interval / fitted contact point / reported plateau",
    "Held on the fits observed in all three range modes, bounds placed on "
    "sample abscissae, inverted / infinite / disjoint / zero-width intervals.",
    "Plateau search needs >= 7 samples (scipy); convergence clause judged "
    "conditionally as stated in DESIGN C05.")
add("C11", "twin-execution monitor: the same curve fitted with k and with 1, "
    "results compared; every pass' initial contact point observed at the "
    "lmfit.minimize boundary",
    "Held on the twin fits observed (3 power-law models, 8 factors, both "
    "segments, absolute / interval / relative-cp / plateau modes, noise-free "
    "and SNR>=100).",
    "Comparisons only on well-posed fits (>= 10 in-contact points); plateau "
    "selection flips are counted, not judged; weighting on only for exactly "
    "converged noise-free twins.")
add("C03", "history monitor with a fresh-copy oracle: random operation "
    "histories on one long-lived curve, a second execution (fresh object, "
    "stored settings applied once) compared bitwise after every operation "
    "that leaves results visible; optimiser calls counted at lmfit.minimize",
    "Held on the histories observed (thousands of operations incl. raising "
    "ones, ~1500 bitwise fresh-copy comparisons per quick run).",
    "The fresh copy is built from the same raw arrays/file; states without "
    "a hash make no claim and are not compared.")
add("C06", "request-sequence monitor: all columns fingerprinted after every "
    "accepted / rejected preprocessing request and compared bytewise with a "
    "fresh object given the same request once; raw-data digest; audit hook on "
    "open()",
    "Held on the request sequences observed (valid pipelines x all option "
    "values, six kinds of invalid request, through apply_preprocessing and "
    "fit_model).",
    "Rejected = the call raises; fresh object from the same raw data.")
add("C10", "twin-execution monitor (one object edited in place vs fresh deep "
    "copies) plus entry/exit fingerprints of every mutable argument at the "
    "API boundary",
    "Held on the scenarios observed: 15 argument kinds x in-place edits x "
    "gcf_k x range types; ~9000 argument fingerprint comparisons and ~1500 "
    "twin state comparisons per quick run.",
    "Observable state compared by value; bitwise first, numerically "
    "equivalent (1e-6, identical hash) tolerated and counted because lmfit "
    "results are not bit-reproducible in ill-conditioned cases.")
add("C17", "runtime oracle on compute_features over fitted / unfitted / "
    "unsuccessful curve states: value classes, name order (each feature "
    "recomputed alone), curve fingerprints, metamorphic force scaling "
    "(2^n bitwise) and retract perturbation on value-copied curves",
    "Held (apart from the listed known finding) on the curves and states "
    "observed: synthetic over models/noise/spikes/short/long segments, all "
    "recorded fmt-jpk-fd_s* curves incl. the bad ones.",
    "Feature classes (fraction / signed / magnitude) as listed in the check; "
    "clones carry columns and fit properties by value.")
add("C09", "state x configuration monitor on rate_quality: wrapper on "
    "nanite.indent.get_rater counts rater constructions, value compared with "
    "an independently built standalone rater on the curve's features, "
    "repetition / fresh-object / cross-process (PYTHONHASHSEED) determinism",
    "Held (apart from the listed known finding) on the curve states and "
    "configurations observed: 9 states x 7 regressors + 'none' x 5 kinds of "
    "training set x feature subsets x lda.",
    "Range demanded only for averaging tree regressors; standalone rater "
    "built with the same arguments; two child processes for hash seeds.")
add("C12", "metamorphic pair monitor on the real hash function "
    "(IndentationFitter(...).hash): must-differ pairs per settings key / "
    "parameter attribute / 1-ulp data change, must-be-equal representation "
    "pairs and don't-cares, adversarial concatenation class, child processes "
    "with three PYTHONHASHSEED values, tie to fit_properties['hash']",
    "Held on the pairs observed: thousands per quick run over all "
    "default-settings keys and all five parameter attributes.",
    "Realistic SI value domains per key; invalid setting combinations are "
    "skipped and counted.")
add("C18", "registry monitor: all single-fault mutants of a valid model "
    "module offered as object and as file, random register/deregister/load "
    "sequences checked against a dictionary model with sys.path snapshots "
    "around every load, file copy of shipped models compared bitwise, random "
    "ancillary dictionaries",
    "Held on the operations observed (~1400 faulty modules, ~750 registry "
    "operations, ~1200 sys.path comparisons per quick run).",
    "Model error = subclass of ModelError; unimportable = missing file / "
    "missing module / missing name / syntax error; unique stems per file.")
add("C16", "fault enumeration at the h5py write boundary (every create_group "
    "/ create_dataset / attribute write of a save fails once) plus save "
    "sequence monitor with structural container dumps before/after each save "
    "and round-trip oracle on every stored entry",
    "Every write call of the fault-enumerated saves was failed once (~40 per "
    "save, 16 saves per quick run); held on all save sequences observed.",
    "Faults are exceptions at h5py write calls (process kills inside the HDF5 "
    "library are out of reach); time-stamp attributes ignored in dumps.",
    category="fault_enumeration")
add("C15", "differential runtime oracle: real load_training_set vs a 15-line "
    "sequential reference loader on harness-written matrices (NaN/inf "
    "patterns, flags, subsets), unique row tags for row/response pairing, "
    "sample-weight invariants, export -> load round trip of rating containers",
    "Held on ~1700 matrices and 48 exported curves per quick run (bitwise "
    "agreement with the reference; names, pairing, weights).",
    "n >= 2 rows, >= 1 selected column, columns consisting only of +-inf "
    "are undefined by the statement and skipped (counted).")
add("C19", "boundary monitor on the CLI profile (file text read back through "
    "new Profile objects after every write), scripted interactive sessions "
    "through a replaced builtins.input with per-prompt oracle, and real batch "
    "fits (fit_perform) on generated folders compared row by row with fits "
    "computed by the harness",
    "Held (apart from the listed known finding) on ~2300 set/get round "
    "trips, ~1400 prompts of scripted sessions and the batch fits observed.",
    "Preprocessing answers restricted to valid orders containing "
    "compute_tip_position; batch fits judged only for profiles whose "
    "interval fits every curve of the folder.")
add("C20", "loader / map monitor on harness-written files with known layout "
    "(folders, multi-curve files, maps in shuffled scan order with a known "
    "modulus per pixel) and recorded files: object count/order/class, "
    "progress callback sequence, group refusal, map pixels recomputed from "
    "each curve's current fit properties and rating after random "
    "fit/rate/refit/reprocess operations",
    "Held on the files, folders and ~29000 map pixels observed per quick "
    "run, including maps with missing pixels and the five recorded maps.",
    "File order = the order in which afmformats enumerates the file; pixel "
    "addressed by the 'grid index' metadata; overrides tested on JPK files "
    "(afmformats does not implement them for HDF5).")
add("C07", "in-place wrappers on every registered preprocessing step snapshot "
    "all columns before/after each real execution inside random valid "
    "pipelines; per-step contract oracle (bitwise tip position, constant "
    "offsets, affine slope correction without jump, single segment switch, "
    "strict monotony, foreign columns byte-identical)",
    "Held (apart from the listed known finding) on ~4800 step executions per "
    "quick run over synthetic well-formed curves (4 models, noise, tilt, "
    "drift, lagged turning point, height noise) and recorded curves, all "
    "option values.",
    "Well-formed class and tolerances as stated in the check's assumptions; "
    "the estimated contact index is nanite's own compute_poc on the 'before' "
    "force.")
