# table consumed by tools/mkmanifest.py (add(...) per built check)
add("C14", "exhaustive execution of the real autosort/check_order/apply over "
    "all 1957 ordered step selections, judged by an independent validity "
    "predicate",
    "Exhaustive for the shipped step set: every ordered selection is run "
    "through the real functions; held means no selection disagreed with the "
    "independently coded rule. Right level because the input space is finite.",
    "Trusts the steps' own steps_required/steps_optional declarations as the "
    "specification; apply acceptance probed on one synthetic curve.")
add("C02", "differential runtime oracle: real model functions vs independent "
    "closed-form references and the exact parametric Sneddon sphere on "
    "generated parameter vectors and indentation arrays",
    "Held on the generated (model, parameters, array) executions: tens of "
    "thousands per quick run, all five models, both call paths, samples at "
    "and one ulp around the contact point, sphere depths up to R.",
    "Reference formulas transcribed from docstrings/publications; 64 eps "
    "round-off tolerance; says nothing about parameter vectors not generated.")
add("C13", "metamorphic runtime monitor on every registered model (shipped + "
    "4 harness-defined awkward models): reversal, exact dyadic translation, "
    "baseline additivity, power-of-two modulus scaling, continuity, monotony, "
    "argument fingerprints, residual definition",
    "Held on the generated executions of all registered models; exact "
    "(bitwise) comparisons wherever the arithmetic is exact by construction.",
    "Dyadic abscissa grid and power-of-two factors make bitwise comparison "
    "legitimate; third-party registry entries are logged, not judged.")
add("C08", "boundary taps inside POC_METHODS observing raw estimator returns; "
    "validity / invariance / accuracy / fallback oracle over generated model "
    "curves and enumerated + random degenerate arrays",
    "Held on the executions observed: thousands of curve estimates under "
    "scale/shift transforms and ~80k degenerate-array estimates per quick run "
    "(all arrays over {0,1,2} up to length 8 enumerated completely).",
    "Accuracy fractions and the clean-curve class are the harness' stated "
    "ones (see DESIGN C08); invariance judged for curves with a baseline.")
