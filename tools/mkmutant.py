#!/usr/bin/env python3
"""tools/mkmutant.py <name> <file-relative-to-repo> <old> <new>
Create mutants/<name>.diff by replacing <old> with <new> (exactly once) in a
scratch worktree of /repo HEAD."""
import pathlib
import subprocess
import sys
import tempfile

name, rel, old, new = sys.argv[1:5]
wt = tempfile.mkdtemp(prefix="nv_mk_")
subprocess.check_call(["rmdir", wt])
subprocess.check_call(["git", "-C", "/repo", "worktree", "add", "-q",
                       "--detach", wt, "HEAD"])
try:
    p = pathlib.Path(wt) / rel
    s = p.read_text()
    assert s.count(old) == 1, "pattern occurs %d times" % s.count(old)
    p.write_text(s.replace(old, new))
    diff = subprocess.check_output(["git", "-C", wt, "diff"], text=True)
    (pathlib.Path(__file__).resolve().parent.parent / "mutants"
     / (name + ".diff")).write_text(diff)
    print("written mutants/%s.diff (%d lines)" % (name, diff.count("\n")))
finally:
    subprocess.call(["git", "-C", "/repo", "worktree", "remove", "--force",
                     wt])
