"""Core of the runtime-monitoring harness: recorder, fingerprints, anchor
coverage, shard protocol, known findings, evidence and verdict.

Nothing in here knows about a particular property.  A property module
(`vm/props/cNN.py`) provides

    ID, LEVEL, ANCHORS (list of "module:qualname" that the workload must enter)
    shards(tier) -> int
    run_shard(rec, tier, seed, shard, nshards)     workload + oracle
    replay(rec, case)                               re-run one recorded case
    MIN_EVALS = {"quick": n, "thorough": n}        below -> inconclusive
    RULE (str), ASSUMPTIONS (list of str)
"""
import hashlib
import json
import os
import pathlib
import sys
import time

import numpy as np

VERIF = pathlib.Path(__file__).resolve().parent.parent
REPO = pathlib.Path(os.environ.get("NANITE_REPO", "/repo"))


# ---------------------------------------------------------------------------
# value fingerprints (structural, by value)
# ---------------------------------------------------------------------------

def _param_state(p):
    return ("P", p.name, fp(p._val if p._expr is None else None),
            fp(p.min), fp(p.max), bool(p.vary), p._expr,
            fp(getattr(p, "brute_step", None)))


def fp(obj):
    """Deterministic, value based fingerprint of (nested) python objects."""
    import lmfit
    if obj is None or isinstance(obj, (str, bytes, bool)):
        return obj
    if isinstance(obj, (int, np.integer)):
        return ("i", int(obj))
    if isinstance(obj, (float, np.floating)):
        f = float(obj)
        return ("f", f.hex())
    if isinstance(obj, np.ndarray):
        return ("nd", str(obj.dtype), obj.shape,
                hashlib.md5(np.ascontiguousarray(obj).tobytes()).hexdigest())
    if isinstance(obj, lmfit.Parameters):
        return ("Ps",) + tuple(_param_state(obj[k]) for k in obj)
    if isinstance(obj, lmfit.Parameter):
        return _param_state(obj)
    if isinstance(obj, dict):
        return ("d",) + tuple((repr(k), fp(obj[k])) for k in obj)
    if isinstance(obj, (list, tuple)):
        return (type(obj).__name__[0],) + tuple(fp(o) for o in obj)
    if isinstance(obj, pathlib.PurePath):
        return ("path", str(obj))
    return ("repr", repr(obj))


def fp_unordered(obj):
    """like fp, but dictionaries are compared without insertion order"""
    if isinstance(obj, dict):
        return ("d",) + tuple(sorted((repr(k), fp_unordered(obj[k]))
                                     for k in obj))
    if isinstance(obj, (list, tuple)):
        return (type(obj).__name__[0],) + tuple(fp_unordered(o) for o in obj)
    return fp(obj)


def digest(obj):
    return hashlib.md5(repr(fp(obj)).encode()).hexdigest()[:16]


def jsonable(obj, depth=0):
    """Make a case description JSON serialisable (for samples / replay)."""
    import lmfit
    if depth > 8:
        return repr(obj)
    if obj is None or isinstance(obj, (str, bool)):
        return obj
    if isinstance(obj, (int, np.integer)):
        return int(obj)
    if isinstance(obj, (float, np.floating)):
        f = float(obj)
        if f != f or f in (float("inf"), float("-inf")):
            return {"__float__": repr(f)}
        return f
    if isinstance(obj, np.ndarray):
        if obj.size <= 64:
            return {"__ndarray__": [jsonable(v, depth+1) for v in obj.tolist()],
                    "dtype": str(obj.dtype)}
        return {"__ndarray_digest__": fp(obj)[3], "shape": list(obj.shape),
                "dtype": str(obj.dtype)}
    if isinstance(obj, lmfit.Parameters):
        return {"__Parameters__": {k: [jsonable(obj[k].value, depth+1),
                                       jsonable(obj[k].min, depth+1),
                                       jsonable(obj[k].max, depth+1),
                                       bool(obj[k].vary), obj[k].expr]
                                   for k in obj}}
    if isinstance(obj, dict):
        return {str(k): jsonable(v, depth+1) for k, v in obj.items()}
    if isinstance(obj, (list, tuple, set, frozenset)):
        return [jsonable(v, depth+1) for v in obj]
    if isinstance(obj, pathlib.PurePath):
        return str(obj)
    return repr(obj)


def unjson(obj):
    """inverse of jsonable for the simple value types used in replay cases"""
    import lmfit
    if isinstance(obj, dict):
        if "__float__" in obj:
            return float(obj["__float__"])
        if "__ndarray__" in obj:
            return np.array([unjson(v) for v in obj["__ndarray__"]],
                            dtype=obj["dtype"])
        if "__Parameters__" in obj:
            p = lmfit.Parameters()
            for k, (v, mi, ma, vary, expr) in obj["__Parameters__"].items():
                p.add(k, value=unjson(v), min=unjson(mi), max=unjson(ma),
                      vary=vary, expr=expr)
            return p
        return {k: unjson(v) for k, v in obj.items()}
    if isinstance(obj, list):
        return [unjson(v) for v in obj]
    return obj


# ---------------------------------------------------------------------------
# anchor coverage via sys.monitoring (LINE events, DISABLE after first hit)
# ---------------------------------------------------------------------------

class Coverage:
    TOOL = 3

    def __init__(self):
        self.lines = set()
        self.funcs = set()
        self.on = False
        self.prefix = str(REPO / "src" / "nanite")

    def start(self):
        mon = sys.monitoring
        try:
            mon.use_tool_id(self.TOOL, "nanite-verif-cov")
        except ValueError:
            return
        prefix = self.prefix
        lines = self.lines
        funcs = self.funcs
        DIS = mon.DISABLE

        def on_line(code, lineno):
            fn = code.co_filename
            if fn.startswith(prefix):
                lines.add((fn[len(prefix) + 1:], lineno))
            return DIS

        def on_start(code, offset):
            fn = code.co_filename
            if fn.startswith(prefix):
                funcs.add((fn[len(prefix) + 1:], code.co_qualname))
            return DIS

        mon.register_callback(self.TOOL, mon.events.LINE, on_line)
        mon.register_callback(self.TOOL, mon.events.PY_START, on_start)
        mon.set_events(self.TOOL, mon.events.LINE | mon.events.PY_START)
        self.on = True

    def stop(self):
        if self.on:
            mon = sys.monitoring
            mon.set_events(self.TOOL, 0)
            mon.free_tool_id(self.TOOL)
            self.on = False


# ---------------------------------------------------------------------------
# recorder
# ---------------------------------------------------------------------------

class Recorder:
    """Collects what the monitors observed in one shard."""

    MAX_VIOL_STORED = 40

    def __init__(self, prop, tier, seed, shard=0):
        self.prop = prop
        self.tier = tier
        self.seed = seed
        self.shard = shard
        self.evaluations = 0
        self.digests = set()
        self.trivial = 0
        self.violations = []       # dicts: key, what, case
        self.viol_counts = {}
        self.samples = []
        self.events = {}
        self.notes = {}
        self.inconclusive = []
        self.maxima = {}

    # -- oracle bookkeeping
    def evaluated(self, dg=None, nontrivial=True, n=1):
        self.evaluations += n
        if nontrivial:
            if dg is not None:
                self.digests.add(dg if isinstance(dg, str) else digest(dg))
        else:
            self.trivial += n

    def violation(self, key, what, case):
        self.viol_counts[key] = self.viol_counts.get(key, 0) + 1
        if self.viol_counts[key] <= 3 and \
                len(self.violations) < self.MAX_VIOL_STORED:
            self.violations.append({"key": key, "what": str(what)[:600],
                                    "case": jsonable(case)})

    def check(self, cond, key, what, case):
        """convenience: record a violation if `cond` is false"""
        if not cond:
            self.violation(key, what() if callable(what) else what, case)
        return bool(cond)

    def sample(self, case, limit=4):
        if len(self.samples) < limit:
            self.samples.append(jsonable(case))

    def event(self, name, n=1):
        self.events[name] = self.events.get(name, 0) + n

    def maximum(self, name, value):
        value = float(value)
        if value == value and value > self.maxima.get(name, -1.0):
            self.maxima[name] = value

    def note(self, name, value):
        self.notes[name] = value

    def inconclusive_because(self, reason):
        if reason not in self.inconclusive:
            self.inconclusive.append(reason)

    def dump(self, cov=None):
        out = {"evaluations": self.evaluations,
               "digests": sorted(self.digests),
               "trivial": self.trivial,
               "violations": self.violations,
               "viol_counts": self.viol_counts,
               "samples": self.samples,
               "events": self.events,
               "notes": self.notes,
               "maxima": self.maxima,
               "inconclusive": self.inconclusive}
        if cov is not None:
            out["cov_lines"] = sorted(cov.lines)
            out["cov_funcs"] = sorted(cov.funcs)
        return out


def case_rng(seed, prop, shard, case):
    """Independent generator for one case (replayable)."""
    pid = int(prop[1:])
    return np.random.default_rng([int(seed), pid, int(shard), int(case)])


# ---------------------------------------------------------------------------
# known findings
# ---------------------------------------------------------------------------

def load_known():
    path = VERIF / "known_findings.json"
    if not path.exists():
        return []
    return json.loads(path.read_text())["findings"]


def assert_repo_tree():
    """The monitored code must be /repo's working tree."""
    import nanite
    want = str(REPO / "src")
    got = str(pathlib.Path(nanite.__file__).resolve())
    if not got.startswith(want):
        raise SystemExit("nanite imported from %s, expected below %s"
                         % (got, want))


class Timer:
    def __init__(self):
        self.t0 = time.time()

    def __call__(self):
        return time.time() - self.t0


def library_state():
    """value fingerprint of nanite's module-level state that every curve of
    the process shares: default fit properties, order rules of the
    preprocessing steps, registered estimators / models / regressors"""
    from nanite import fit, preproc, poc, model
    from nanite.rate import regressors
    return {
        "fit.FP_DEFAULT": fp_unordered(dict(fit.FP_DEFAULT)),
        "preproc step rules": fp([(f.identifier, list(f.steps_required or []),
                                   list(f.steps_optional or []))
                                  for f in preproc.PREPROCESSORS]),
        "poc methods": fp([m.identifier for m in poc.POC_METHODS]),
        "registered models": fp(sorted(model.models_available)),
        "model parameter defaults": fp(sorted(
            (k, fp(md.get_parameter_defaults()))
            for k, md in model.models_available.items())),
        "regressors": fp(sorted((k, v[0].__name__, fp_unordered(dict(v[1])))
                                for k, v in regressors.reg_dict.items())),
    }


def check_library_state(rec, before, case=None):
    """a workload must leave the shared module-level state as it found it"""
    after = library_state()
    for k in before:
        rec.event("shared library state compared (start vs end of shard)")
        rec.check(before[k] == after[k], "library-state-changed/" + k,
                  "module-level state '%s' differs between start and end of "
                  "the workload: results of later curves depend on what "
                  "earlier calls did" % k, case or {"id": [-1, -1]})
