"""Run one shard (or one replay case) of a property in this process.

usage: python -m vm.shard <ID> <tier> <seed> <shard> <nshards> <out.json>
       python -m vm.shard <ID> --replay <case.json> <out.json>
"""
import faulthandler
import importlib
import json
import os
import sys
import traceback
import warnings


def main(argv):
    faulthandler.enable()
    warnings.simplefilter("ignore")
    os.environ.setdefault("MPLBACKEND", "Agg")
    from . import core
    core.assert_repo_tree()
    prop = argv[0]
    mod = importlib.import_module("vm.props." + prop.lower())
    cov = core.Coverage()
    if argv[1] == "--replay":
        case = json.loads(open(argv[2]).read())
        out = argv[3]
        rec = core.Recorder(prop, case.get("tier", "quick"),
                            int(case.get("seed", 0)))
        cov.start()
        try:
            mod.replay(rec, case)
        except BaseException:
            rec.inconclusive_because("replay crashed: "
                                     + traceback.format_exc()[-800:])
        cov.stop()
    else:
        tier, seed, shard, nshards, out = argv[1], int(argv[2]), \
            int(argv[3]), int(argv[4]), argv[5]
        rec = core.Recorder(prop, tier, seed, shard)
        cov.start()
        try:
            mod.run_shard(rec, tier, seed, shard, nshards)
        except BaseException:
            # a crash of the harness itself is never a verdict
            rec.inconclusive_because("shard %d crashed: %s"
                                     % (shard, traceback.format_exc()[-1500:]))
        cov.stop()
    with open(out, "w") as fd:
        json.dump(rec.dump(cov), fd)


if __name__ == "__main__":
    main(sys.argv[1:])
