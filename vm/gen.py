"""Workload material: synthetic curves with known ground truth, synthetic
measurement files, the recorded corpus.

The forces are computed with the harness' *reference* formulas (vm.ref), not
with nanite's models, so that the ground truth is independent of the code under
observation.
"""
import pathlib

import numpy as np

from . import core, ref

SHIPPED = ["hertz_para", "hertz_cone", "hertz_pyr3s", "sneddon_spher_approx",
           "power_layer_clifford_2009"]
POWER_P = {"hertz_para": 1.5, "hertz_cone": 2.0, "hertz_pyr3s": 2.0}

DATA = core.REPO / "tests" / "data"


def draw_params(rng, model_key, wide=True):
    """Random parameter vector inside the model's bounds."""
    if model_key == "power_layer_clifford_2009":
        return {"E_S": float(10 ** rng.uniform(2, 6)),
                "E_L": float(10 ** rng.uniform(0, 3)),
                "R": float(rng.uniform(1, 30) * 1e-6),
                "nu_S": float(rng.uniform(0, .5)),
                "nu_L": float(rng.uniform(0, .5)),
                "t": float(10 ** rng.uniform(-8, -6))}
    p = {"E": float(10 ** rng.uniform(2, 6)), "nu": float(rng.uniform(0, .5))}
    if model_key in ("hertz_para", "sneddon_spher_approx"):
        p["R"] = float(rng.uniform(1, 30) * 1e-6)
    elif model_key == "hertz_cone":
        p["alpha"] = float(rng.uniform(5, 60))
    else:
        p["alpha"] = float(rng.uniform(5, 30))
    return p


def abscissa(rng, n, zmax, zmin, law):
    """tip positions from zmax (far away) to zmin (deepest)"""
    if law == "uniform":
        u = np.linspace(0, 1, n)
    elif law == "jitter":
        u = np.linspace(0, 1, n)
        du = 1 / (n - 1)
        u[1:-1] += rng.uniform(-.4, .4, n - 2) * du
    elif law == "jitter2":
        # jitter larger than the sample spacing: non-monotonic abscissa
        u = np.linspace(0, 1, n)
        du = 1 / (n - 1)
        u[1:-1] += rng.uniform(-.9, .9, n - 2) * du
    elif law == "overshoot":
        # the deepest position is reached a few samples before the end of
        # the segment, then the tip retreats a little (piezo overshoot)
        u = np.linspace(0, 1, n)
        m = int(min(max(2, n // 100), 6, n - 2))
        du = 1 / (n - 1)
        u[-m:] = u[-m - 1] - du * .6 * np.arange(1, m + 1)
    else:  # quadratic: denser near the far end
        u = np.linspace(0, 1, n) ** 2
    return zmax + (zmin - zmax) * u


def make_arrays(rng, model_key, params, cp=0.0, baseline=0.0, n_app=500,
                n_ret=500, zmax=3e-6, zmin=-2e-6, law="uniform", noise=0.0,
                tilt=0.0, spring=0.05):
    """Return dict of raw columns and the truth dict."""
    tip_a = abscissa(rng, n_app, zmax, zmin, law)
    tip_r = abscissa(rng, n_ret, zmax, zmin, law)[::-1].copy()
    tip = np.concatenate([tip_a, tip_r])
    full = dict(params, contact_point=cp, baseline=baseline)
    force = ref.force(model_key, tip, full)
    if tilt:
        force = force + tilt * (tip - zmax)
    clean = force.copy()
    if noise:
        force = force + rng.normal(0, noise, force.size)
    seg = np.concatenate([np.zeros(n_app, np.uint8), np.ones(n_ret, np.uint8)])
    t = np.arange(tip.size) * 1e-3
    data = {"force": force, "segment": seg, "time": t,
            "height (measured)": tip - force / spring,
            "tip position": tip}
    return data, {"params": full, "clean": clean}


def make_indentation(data, with_tip=True, spring=0.05, path="synth.h5",
                     enum=0):
    from nanite.indent import Indentation
    d = {k: np.array(v, copy=True) for k, v in data.items()}
    if not with_tip:
        d.pop("tip position")
    meta = {"path": pathlib.Path(path), "enum": enum,
            "spring constant": spring, "imaging mode": "force-distance",
            "point count": d["force"].size}
    return Indentation(data=d, metadata=meta)


def make_curve(rng, model_key="hertz_para", params=None, with_tip=True,
               **kw):
    if params is None:
        params = draw_params(rng, model_key)
    spring = kw.pop("spring", 0.05)
    data, truth = make_arrays(rng, model_key, params, spring=spring, **kw)
    idnt = make_indentation(data, with_tip=with_tip, spring=spring)
    truth["data"] = data
    return idnt, truth


def nanite_params(model_key, values=None):
    """lmfit.Parameters with the model's defaults overridden by `values`"""
    from nanite import model
    p = model.models_available[model_key].get_parameter_defaults()
    for k, v in (values or {}).items():
        p[k].value = v
    return p


def export_file(path, curves, qmap=None):
    """Write Indentation objects to one afmformats HDF5 file.

    qmap: optional list of (ix, iy, shape) grid info per curve
    """
    import h5py
    path = pathlib.Path(path)
    with h5py.File(path, "w") as h5:
        for ii, idnt in enumerate(curves):
            md = idnt._metadata
            md["enum"] = ii
            idnt.export_data(h5, metadata=True, fmt="hdf5")
    return path


def recorded_single_curves():
    """Well formed recorded single-curve files of the repository"""
    names = ["fmt-jpk-fd_spot3-0192.jpk-force",
             "fmt-jpk-fd_single_tilted-baseline-drift-"
             "mitotic_2021-01-29.jpk-force",
             "fmt-jpk-fd_single_tilted-baseline-shift-"
             "adyp_2023-06-26.jpk-force"]
    return [DATA / n for n in names if (DATA / n).exists()]


def load_recorded(path, idx=0):
    from nanite import IndentationGroup
    return IndentationGroup(path)[idx]
