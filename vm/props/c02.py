"""C02 - shipped models evaluate their published formulas."""
import numpy as np

from .. import core, gen, ref

ID = "C02"
LEVEL = "exploration"
ANCHORS = [("model/model_hertz_paraboloidal.py", "hertz_paraboloidal"),
           ("model/model_conical_indenter.py", "hertz_conical"),
           ("model/model_hertz_three_sided_pyramid.py",
            "hertz_three_sided_pyramid"),
           ("model/model_sneddon_spherical_approximation.py",
            "hertz_sneddon_spherical_approx"),
           ("model/model_power_layer_clifford_2009.py",
            "power_layer_clifford_2009"),
           ("model/residuals.py", "model_direction_agnostic")]
MIN_EVALS = {"quick": 5000, "thorough": 100000}
TIMEOUT = {"quick": 600, "thorough": 3000}
N_CASES = {"quick": 1500, "thorough": 300000}     # per shard
RULE = ("case = (model, parameter vector in bounds, indentation array with "
        "samples at / one ulp around the contact point, descending / "
        "ascending / approach+retract trace / unsorted, call "
        "path model_func vs NaniteFitModel.model); distinct by digest of "
        "(model, params, array bytes); non-trivial = at least one sample in "
        "contact and one out of contact")
ASSUMPTIONS = [
    "reference formulas in vm/ref.py were transcribed from the model "
    "docstrings / publications (Bilodeau constant 0.8887)",
    "round-off tolerance 64 eps relative to the in-contact force (plus 4 eps "
    "of |baseline|)",
    "exact Sneddon sphere evaluated parametrically in the contact radius; "
    "documented 1e-4 of max force for depths up to the tip radius"]

EPS = np.finfo(float).eps


def shards(tier):
    return 16


def draw_case(rng):
    mk = gen.SHIPPED[int(rng.integers(5))]
    prm = gen.draw_params(rng, mk)
    # occasionally sit on a bound (E stays > 0: Clifford divides by E_S)
    if rng.random() < .15:
        for k in ("nu", "nu_S", "nu_L"):
            if k in prm and rng.random() < .5:
                prm[k] = float(rng.choice([0.0, 0.5]))
    if "alpha" in prm and rng.random() < .1:
        # the declared bounds of the half angle are inside the domain
        from nanite import model as _m
        pa = _m.models_available[mk].get_parameter_defaults()["alpha"]
        prm["alpha"] = float(pa.max if rng.random() < .7 else
                             max(pa.min, 1e-3))
    if "R" in prm and rng.random() < .25:
        # sharp probes: tip radii of nanometres (everything is in SI units)
        prm["R"] = float(10 ** rng.uniform(-9, -6))
    cp = float(rng.uniform(-1, 1) * 10 ** rng.uniform(-8, -5.5))
    if rng.random() < .1:
        cp = 0.0
    bl = float(rng.uniform(-1, 1) * 10 ** rng.uniform(-12, -8))
    if rng.random() < .15:
        bl = 0.0
    n = int(rng.choice([1, 2, 3, 7, 50, 300, 3000]))
    # maximum depth: up to R for sphere models, else some microns
    depth = 10 ** rng.uniform(-8, -5.3)
    if "R" in prm and rng.random() < .6:
        depth = prm["R"] * rng.uniform(.01, 1.0)
    far = 10 ** rng.uniform(-8, -5.3)
    x = np.sort(rng.uniform(cp - depth, cp + far, n))[::-1].copy()
    # plant samples at and one ulp around the contact point
    if n >= 3:
        j = int(rng.integers(0, n - 2))
        x[j:j + 3] = [np.nextafter(cp, np.inf), cp, np.nextafter(cp, -np.inf)]
        x = np.sort(x)[::-1].copy()
    r = rng.random()
    if r < .4:
        x = x[::-1].copy()      # ascending orientation
    elif r < .55 and n >= 3:
        # full approach + retract trace: both ends out of contact
        x = np.concatenate([x, x[::-1][1:]])
    elif r < .7 and n >= 3:
        x = x[rng.permutation(n)]     # unsorted array
    full = dict(prm, contact_point=cp, baseline=bl)
    return mk, full, x


def judge(rec, mk, full, x, via, out, case):
    want = ref.force(mk, x, full)
    bl = full["baseline"]
    cp = full["contact_point"]
    if not rec.check(isinstance(out, np.ndarray) and out.shape == x.shape,
                     "shape", "output shape %s for input %s"
                     % (getattr(out, "shape", None), x.shape), case):
        return
    nocontact = x >= cp
    # exact baseline out of contact
    bad = nocontact & (out != bl)
    rec.check(not bad.any(), "%s/baseline-not-exact" % mk,
              lambda: "F != baseline out of contact at x-cp=%r: F-b=%r (%s)"
              % ((x[bad][0] - cp), out[bad][0] - bl, via), case)
    inc = ~nocontact
    if inc.any():
        tol = 64 * EPS * np.abs(want[inc] - bl) + 4 * EPS * abs(bl) \
            + 64 * np.finfo(float).tiny
        err = np.abs(out[inc] - want[inc])
        rec.maximum("max deviation / tolerance (in-contact samples)",
                    np.max(err / tol))
        b2 = err > tol
        rec.check(not b2.any(), "%s/formula" % mk,
                  lambda: "F=%r, reference %r at depth %r (%s)"
                  % (out[inc][b2][0], want[inc][b2][0],
                     (cp - x[inc][b2][0]), via), case)


def one_case(rec, rng, case_id):
    from nanite import model
    mk, full, x = draw_case(rng)
    md = model.models_available[mk]
    case = {"id": case_id, "model": mk, "params": full, "x": x}
    x0 = x.copy()
    via_params = rng.random() < .5
    if via_params:
        p = gen.nanite_params(mk, full)
        out = md.model(p, x)
        via = "NaniteFitModel.model"
    else:
        # the formulas are pointwise: any finite array, any order
        via = "model_func"
        if rng.random() < .2:
            # a direct call as a user would type it: contact point and
            # baseline left at the defaults of the signature or given as
            # plain integers (0 m, 0 N)
            kws = dict(full)
            how_i = int(rng.integers(3))
            if how_i == 0:
                kws.pop("baseline")
                kws.pop("contact_point")
            elif how_i == 1:
                kws["baseline"] = 0
                kws["contact_point"] = 0
            else:
                kws.pop("baseline")
                kws["contact_point"] = full["contact_point"]
            full = dict(full, baseline=0.0,
                        contact_point=float(kws.get("contact_point", 0)))
            case["params"] = full
            case["call"] = ["defaults", "integers", "baseline default"][how_i]
            rec.event("direct calls with default / integer contact point "
                      "and baseline")
            out = md.module.model_func(x, **kws)
        else:
            out = md.module.model_func(x, **full)
    incontact = int(np.sum(x < full["contact_point"]))
    rec.evaluated(dg=(mk, full, x), nontrivial=0 < incontact < x.size)
    rec.event("model evaluations via " + via)
    rec.event("samples in contact", incontact)
    rec.event("samples out of contact", int(x.size - incontact))
    rec.check(np.array_equal(x, x0), "input-mutated",
              "abscissa modified by %s" % via, case)
    judge(rec, mk, full, x, via, out, case)
    if rng.random() < .35:
        # second evaluation with the same array *object* (and the same
        # parameter object) after in-place edits of the abscissa, of the
        # array returned before, or of a parameter: the result has to be
        # the formula of the values present at the time of the call
        how = ["shift-x", "scale-x", "edit-returned", "edit-parameter"][
            int(rng.integers(4))]
        full2 = dict(full)
        if how == "shift-x":
            x -= float(rng.uniform(-1, 1) * 10 ** rng.uniform(-8, -6))
        elif how == "scale-x":
            x *= float(rng.uniform(.3, 3))
        elif how == "edit-returned" and isinstance(out, np.ndarray) \
                and out.flags.writeable:
            out += float(rng.uniform(-1, 1) * 1e-9)
            out[::2] = -1.0
        else:
            how = "edit-parameter"
            key = "baseline" if rng.random() < .5 else \
                ("E" if "E" in full else "E_L")
            full2[key] = float(full[key] * rng.uniform(.5, .9)
                               + (1e-10 if key == "baseline" else 0))
            if via_params:
                p[key].value = full2[key]
        x1 = x.copy()
        out_before = out.copy() if isinstance(out, np.ndarray) else None
        if via_params:
            out2 = md.model(p, x)
        else:
            out2 = md.module.model_func(x, **full2)
        case2 = dict(case, params=full2, x=x1, second_call=how)
        rec.event("second evaluations on the same array object: " + how)
        rec.evaluated(dg=(mk, full2, x1, how))
        rec.check(np.array_equal(x, x1), "input-mutated",
                  "abscissa modified by %s (second call)" % via, case2)
        # the array handed out by the first call belongs to the caller
        rec.check(out2 is not out and np.array_equal(out, out_before,
                                                     equal_nan=True),
                  "earlier-result-overwritten",
                  "the array returned by the first evaluation was changed "
                  "by the second one (%s, %s)" % (via, how), case2)
        judge(rec, mk, full2, x1, via + " (second call, %s)" % how, out2,
              case2)
    if via_params and rng.random() < .2:
        # a parameter tied to another one by a constraint expression, the
        # independent parameter changed afterwards: the model has to use the
        # values lmfit reports (valuesdict), outside of any fit
        p3 = gen.nanite_params(mk, full)
        full3 = dict(full)
        if mk == "power_layer_clifford_2009" and rng.random() < .5:
            p3["nu_L"].set(expr="nu_S")
            full3["nu_S"] = float(rng.uniform(0, .5))
            p3["nu_S"].value = full3["nu_S"]
            full3["nu_L"] = full3["nu_S"]
        else:
            p3["baseline"].set(expr="contact_point*0.001")
            full3["contact_point"] = float(full["contact_point"]
                                           + rng.uniform(-1, 1) * 1e-7)
            p3["contact_point"].value = full3["contact_point"]
            full3["baseline"] = full3["contact_point"] * 0.001
        x3 = x.copy()
        out3 = md.model(p3, x3)
        case3 = dict(case, params=full3, x=x3, tied_parameter=True)
        rec.event("evaluations with an expression-constrained parameter")
        rec.evaluated(dg=(mk, full3, x3, "tied"))
        judge(rec, mk, full3, x3, via + " (tied parameter)", out3, case3)
    rec.sample({"model": mk, "params": full, "n": int(x.size), "via": via,
                "max_depth": float(full["contact_point"] - x.min())})


def sphere_case(rec, rng, case_id):
    """truncated series vs exact Sneddon sphere up to depth R"""
    from nanite import model
    md = model.models_available["sneddon_spher_approx"]
    E = float(10 ** rng.uniform(2, 6))
    R = float(rng.uniform(1, 30) * 1e-6)
    if rng.random() < .3:
        # sharp probes: tip radii of nanometres (everything is in SI units)
        R = float(10 ** rng.uniform(-9, -6))
    nu = float(rng.uniform(0, .5))
    cp = float(rng.uniform(-1e-6, 1e-6))
    bl = float(rng.uniform(-1e-9, 1e-9)) * (R / 1e-5) ** 2
    # contact radii such that delta covers (0, R]; delta(a)=R at a~0.8336 R
    a = np.linspace(1e-6, 0.8400, int(rng.choice([200, 2000]))) * R
    delta, F = ref.sneddon_exact(a, E, R, nu)
    keep = delta <= R
    delta, F = delta[keep], F[keep]
    x = cp - delta           # descending in x == increasing depth
    p = gen.nanite_params("sneddon_spher_approx",
                          dict(E=E, R=R, nu=nu, contact_point=cp,
                               baseline=bl))
    out = md.model(p, x)
    case = {"id": case_id, "kind": "sphere", "E": E, "R": R, "nu": nu,
            "cp": cp, "bl": bl, "n": int(a.size)}
    dev = np.max(np.abs((out - bl) - F)) / np.max(F)
    rec.evaluated(dg=("sphere", E, R, nu, a.size))
    rec.event("sphere series vs exact comparisons")
    rec.maximum("sphere |series-exact|/maxF", dev)
    rec.note("max depth/R covered", float(np.max(delta) / R))
    rec.check(dev <= 1e-4, "sneddon_spher_approx/exceeds-1e-4-of-exact",
              "max |series-exact|/maxF = %.3e for depth<=R" % dev, case)
    if np.max(delta) / R < 0.99:
        rec.inconclusive_because("exact sphere curve only reaches depth "
                                 "%.3f R" % (np.max(delta) / R))


def run_shard(rec, tier, seed, shard, nshards):
    n = N_CASES[tier]
    if shard % 2:
        # hostile surroundings: in every second shard the user has loaded
        # modules DERIVED from the shipped ones (star import, own model
        # function) before the shipped models are evaluated
        import shutil
        import tempfile
        from nanite import model
        from .. import hmodels
        tmp = tempfile.mkdtemp(prefix="nv_c02_")
        try:
            for mk in gen.SHIPPED:
                try:
                    key, _ = hmodels.load_derived(mk, tmp, "s%d" % shard)
                    model.models_available.pop(key, None)
                    rec.event("derived user modules loaded before the "
                              "shipped models were evaluated")
                except BaseException as e:  # noqa
                    rec.event("derived user module not accepted (%s)"
                              % type(e).__name__)
        finally:
            shutil.rmtree(tmp, ignore_errors=True)
    for i in range(n):
        rng = core.case_rng(seed, ID, shard, i)
        if i % 25 == 24:
            sphere_case(rec, rng, [shard, i])
        else:
            one_case(rec, rng, [shard, i])


def replay(rec, case):
    cid = case["case"]["id"]
    rng = core.case_rng(case["seed"], ID, cid[0], cid[1])
    if case["case"].get("kind") == "sphere":
        sphere_case(rec, rng, cid)
    else:
        one_case(rec, rng, cid)
