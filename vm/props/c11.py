"""C11 - the geometrical correction factor rescales the modulus only."""
import copy

import numpy as np

from .. import core, gen, fitlab

ID = "C11"
LEVEL = "exploration"
ANCHORS = [("fit.py", "IndentationFitter._fit"),
           ("fit.py", "IndentationFitter.fit"),
           ("fit.py", "IndentationFitter.compute_emodulus_vs_mindelta")]
MIN_EVALS = {"quick": 800, "thorough": 15000}
MIN_EVENTS = {"twin fits compared (absolute)": 150,
              "twin fits compared (relative cp)": 100,
              "plateau twins: scan compared": 60,
              "initial contact points observed at the optimiser": 1500}
TIMEOUT = {"quick": 900, "thorough": 3500}
N_CASES = {"quick": 75, "thorough": 12000}     # per shard
KS = [0.1, 0.23, 1 / np.pi, 0.5, 0.6135, 0.9, 1.7, 3.0]
RULE = ("case = (power-law model curve, k from {0.1 .. 3}, segment, range "
        "type absolute full / interval / relative cp / plateau search, "
        "initial contact point offset, noise); a twin fit with k=1 on an "
        "identical curve is the second execution to compare with; distinct by "
        "digest of curve spec + settings")
ASSUMPTIONS = [
    "noise-free: 1e-9 of travel / force span, E k^p to 1e-8 (both runs "
    "minimise the same function); noisy (SNR>=100, weighting off): 1e-4",
    "plateau mode: the scan arrays are compared; final parameters only if "
    "both runs selected the same plateau (selection is discontinuous)",
    "every pass' initial contact point is observed at the lmfit.minimize "
    "boundary and must be k x the caller's value"]

EPS = np.finfo(float).eps


def shards(tier):
    return 16


def one_case(rec, tap, rng, cid):
    mk = ["hertz_para", "hertz_cone", "hertz_pyr3s"][int(rng.integers(3))]
    p_exp = gen.POWER_P[mk]
    spec = fitlab.draw_curve_spec(rng, models=[mk], npts=(150, 400, 1000),
                                  noise_snr=(0, 0, 300, 100))
    k = float(KS[int(rng.integers(len(KS)))])
    seg = int(rng.integers(2))
    mode = ["full", "interval", "rel", "plat"][int(rng.integers(4))]
    if mode == "plat" and seg == 1:
        mode = "interval"
    noisy = spec["snr"] > 0
    wcp = 0.0 if noisy else float(rng.choice([0, 0, 2e-7]))
    _, truth = fitlab.build_curve(spec)
    full = truth["full"]
    depth = full["contact_point"] - spec["zmin"]
    if wcp > .4 * depth or mode == "plat":
        # (with weighting on the objective itself depends on k - the window
        #  is wcp/k in measured units - so only the exact noise-free minimum
        #  is shared; the statement exempts noisy data with weighting)
        wcp = 0.0
    cp_user = full["contact_point"] + float(
        rng.uniform(-1, 1) * min(2e-7, .2 * depth))
    e0 = full["E"] * 10 ** rng.uniform(-.3, .3)
    kw = dict(model_key=mk, segment=seg, weight_cp=wcp)
    if mode == "interval":
        kw["range_x"] = [float(full["contact_point"]
                               - depth * rng.uniform(.5, 1.)),
                         float(spec["zmax"] * rng.uniform(.3, 1.))]
    elif mode == "rel":
        kw["range_type"] = "relative cp"
        kw["range_x"] = [-float(rng.uniform(.5, 1.2) * depth),
                         float(rng.uniform(.2, 1.) * (spec["zmax"]
                                                      - full["contact_point"]))]
    elif mode == "plat":
        kw.update(optimal_fit_edelta=True,
                  optimal_fit_num_samples=int(rng.integers(7, 16)),
                  range_x=[0, float(rng.choice([np.inf, 5e-6]))])
    # finite bounds on the contact point (in measured units, like the
    # initial value) that contain truth and guess with a margin
    cp_bounds = None
    if rng.random() < .4:
        cp_bounds = [float(min(cp_user, full["contact_point"])
                           - rng.uniform(.3e-6, 1e-6)),
                     float(max(cp_user, full["contact_point"])
                           + rng.uniform(.3e-6, 1e-6))]
    # contact point held fixed at the caller's value (measured units): the
    # remaining problem is linear in modulus and baseline
    cp_fixed = bool(rng.random() < .2)
    # a minimiser that reports no parameter uncertainties (Nelder-Mead):
    # noise-free data, no weighting, moduli well above scipy's absolute
    # xatol of 1e-4
    nelder = bool(rng.random() < .35 and not noisy and mode in
                  ("full", "interval") and
                  full["E"] * min(1.0, k ** (-p_exp)) >= 1e3)
    if nelder:
        kw["method"] = "nelder"
        kw["weight_cp"] = wcp = 0.0
    # the parameters are handed over with a first call that cannot be
    # carried out (interval without data); the fit proper follows without
    # them: the stored guess is still the caller's, in measured units
    failed_first = bool(rng.random() < .2)
    case = {"id": cid, "spec": spec, "k": k, "mode": mode, "settings": kw,
            "cp_user": cp_user, "cp_bounds": cp_bounds, "cp_fixed": cp_fixed,
            "nelder": nelder, "failed_first": failed_first}
    res = {}
    for kk in (k, 1.0):
        idnt, _ = fitlab.build_curve(spec)
        p0 = gen.nanite_params(mk, {a: b for a, b in full.items()})
        # for k != 1 the modulus that reproduces the data is E k^-p
        p0["E"].value = e0 * kk ** (-p_exp)
        p0["contact_point"].value = cp_user
        if cp_bounds is not None:
            p0["contact_point"].set(min=cp_bounds[0], max=cp_bounds[1])
            rec.event("fits with finite contact-point bounds")
        p0["baseline"].value = 0.0
        if cp_fixed:
            p0["contact_point"].vary = False
            rec.event("fits with the contact point held fixed")
        tap.clear()
        try:
            if failed_first:
                rec.event("fits whose parameters came with an earlier call "
                          "that could not be carried out")
                kw1 = dict(copy.deepcopy(kw), range_type="absolute",
                           range_x=[1.0, 2.0], optimal_fit_edelta=False)
                try:
                    idnt.fit_model(params_initial=p0, gcf_k=kk, **kw1)
                except BaseException:  # noqa
                    pass
                tap.clear()
                kw2 = dict({"range_type": "absolute", "range_x": [0, 0],
                            "optimal_fit_edelta": False},
                           **copy.deepcopy(kw))
                idnt.fit_model(gcf_k=kk, **kw2)
            else:
                idnt.fit_model(params_initial=p0, gcf_k=kk,
                               **copy.deepcopy(kw))
        except BaseException as e:  # noqa
            res[kk] = ("exc", type(e).__name__)
            continue
        fp = idnt.fit_properties
        # observed at the optimiser boundary: initial contact point per pass
        for ent in tap.log:
            rec.event("initial contact points observed at the optimiser")
            rec.check(abs(ent["cp0"] - kk * cp_user)
                      <= 4 * EPS * abs(kk * cp_user),
                      "initial-cp/not-k-times-user-value",
                      "pass started at contact point %r, caller gave %r, "
                      "k=%r (ratio %r)" % (ent["cp0"], cp_user, kk,
                                           ent["cp0"] / cp_user
                                           if cp_user else None),
                      case)
        res[kk] = ("ok", idnt, copy.deepcopy(dict(fp)))
    rec.evaluated(dg=(spec, k, kw), nontrivial=k != 1)
    # (weighting off: with weighting the objective itself depends on k and
    #  has a second minimum near 7 E, see the twin logic below)
    if mode in ("full", "interval") and not wcp and rng.random() < .3:
        direct_fitter(rec, spec, full, mk, p_exp, k, kw, cp_user, e0, case)
    a, b = res[k], res[1.0]
    if a[0] != b[0] or a[0] == "exc":
        rec.check(a[0] == b[0], "outcome-differs",
                  "k=%r: %s, k=1: %s" % (k, a[:2], b[:2]), case)
        rec.event("twin raised in both runs")
        return
    ia, fa = a[1], a[2]
    ib, fb = b[1], b[2]
    if not (fa.get("success") and fb.get("success")):
        rec.check(fa.get("success") == fb.get("success"), "success-differs",
                  "success k=%r: %r, k=1: %r" % (k, fa.get("success"),
                                                 fb.get("success")), case)
        return
    travel = truth["travel"]
    span = truth["span"]
    t_cp, t_e = (1e-4, 1e-4) if noisy else (1e-9, 1e-8)
    # (twins that stopped short of the minimum agree where they were fitted;
    #  outside the fitted range the model extrapolates and amplifies the
    #  termination noise of the parameters)
    inrange_only = False
    if not noisy:
        # the strict noise-free tolerances presuppose that both runs reached
        # the exact (zero residual) minimum; if the optimiser stopped before
        # (ftol), both still minimise the same function when weighting is
        # off -> termination-noise tolerance; with weighting on the two
        # objectives differ away from the minimum -> not judged
        sy = float(np.sum(np.asarray(ia["force"]) ** 2))
        conv = max(fa["chi_sqr"], fb["chi_sqr"]) <= 1e-22 * sy
        if not conv:
            if wcp:
                rec.event("noise-free twins not converged, weighting on "
                          "(not judged)")
                return
            rec.event("noise-free twins not converged to zero residual "
                      "(termination-noise tolerance)")
            # (worst seen on the unchanged tree: 3.8e-3 in 3 x 192000
            #  twins - plateau fits in a flat valley of the objective;
            #  semantic breaks give several per cent at least: a wrong
            #  exponent is 5 % for k = 0.9)
            t_cp, t_e = 1e-2, 1e-2
            inrange_only = True
        if nelder:
            # Nelder-Mead reaches 1e-8 on noise-free data when it converges
            # (C01) but may stop early on its absolute tolerances
            rec.event("Nelder-Mead twins")
            if max(fa["chi_sqr"], fb["chi_sqr"]) > 1e-10 * sy:
                rec.event("Nelder-Mead twins stopped early (not judged)")
                return
            t_cp, t_e = 1e-3, 1e-3
    if mode == "plat":
        da, db = np.asarray(fa["optimal_fit_delta_array"]), \
            np.asarray(fb["optimal_fit_delta_array"])
        ea, eb = np.asarray(fa["optimal_fit_E_array"]), \
            np.asarray(fb["optimal_fit_E_array"])
        rec.event("plateau twins: scan compared")
        rec.check(da.shape == db.shape and
                  np.all(np.abs(da - db) <= 4 * EPS * np.abs(db)),
                  "plateau/depth-grid-depends-on-k",
                  "scan depth grids differ between k=%r and k=1" % k, case)
        # scan entries whose range holds less than 30% of the contact depth
        # do not determine the modulus (both runs return arbitrary numbers)
        xsg = np.asarray(ib["tip position"])[np.asarray(ib["segment"])
                                              == seg]
        ncont = np.array([np.sum((xsg >= d_) & (xsg < full["contact_point"]))
                          for d_ in db])
        # (noisy data: at least half of the contact depth and 30 points,
        #  otherwise the modulus of a scan entry is only loosely determined
        #  and optimiser termination noise reaches the percent level)
        frac_, npt_ = (.5, 30) if noisy else (.3, 10)
        posed = (db <= full["contact_point"] - frac_ * depth) & \
            (ncont >= npt_)
        rec.event("plateau scan entries compared", int(posed.sum()))
        rec.event("plateau scan entries ill-posed (skipped)",
                  int((~posed).sum()))
        if not posed.any():
            return
        rel = (np.abs(ea * k ** p_exp - eb) / np.abs(eb))[posed]
        rec.maximum("plateau scan: |E_k k^p - E_1|/E_1", np.max(rel))
        # scan fits use short ranges: optimiser termination noise is larger
        # than for the final fit (worst seen on the unchanged tree 5e-4 in
        # 24000 twins); semantic breaks give O(0.1 .. 1)
        # a single scan fit that stops early (leastsq ftol) or lands in a
        # neighbouring minimum occurs on the unchanged tree (7 of 192000
        # twins); a semantic break shifts most entries of the scan
        nbad = int(np.sum(rel > 1e-2))
        rec.event("plateau scan entries deviating > 1e-2", nbad)
        rec.check(nbad <= max(1, int(.2 * rel.size)),
                  "plateau/scan-moduli-not-rescaled",
                  "E(delta) scan: %d of %d well-posed entries deviate by more "
                  "than 1e-2 (max rel. deviation of E_k k^p from E_1 = %.3e)"
                  % (nbad, rel.size, np.max(rel)), case)
        if abs(fa["optimal_fit_delta"] - fb["optimal_fit_delta"]) > 1e-12:
            rec.event("plateau twins: selection flipped (not judged)")
            return
        xsg_m = (xsg >= fb["optimal_fit_delta"]) & \
            (xsg < full["contact_point"])
        if fb["optimal_fit_delta"] > full["contact_point"] - frac_ * depth \
                or np.sum(xsg_m) < npt_:
            rec.event("plateau twins: final range ill-posed (not judged)")
            return
        rec.event("plateau twins: same plateau, parameters compared")
    else:
        rec.event("twin fits compared (%s)" % {
            "full": "absolute", "interval": "absolute",
            "rel": "relative cp"}[mode])
    mb = np.asarray(ib["fit range"]).astype(bool)
    if np.sum(mb & (np.asarray(ib["tip position"])
                    < full["contact_point"])) < 10:
        rec.event("fewer than 10 in-contact points fitted: ill-posed "
                  "(not judged)")
        return
    pa, pb = fa["params_fitted"], fb["params_fitted"]
    dcp = abs(pa["contact_point"].value - pb["contact_point"].value) / travel
    dbl = abs(pa["baseline"].value - pb["baseline"].value) / span
    de = abs(pa["E"].value * k ** p_exp / pb["E"].value - 1)
    xa = np.asarray(ia["fit"])
    xb = np.asarray(ib["fit"])
    if inrange_only and np.array_equal(np.isnan(xa), np.isnan(xb)):
        rec.event("unconverged twins: fit column compared inside the fitted "
                  "range")
        dfit = float(np.nanmax(np.abs(xa - xb)[mb])) / span
    else:
        dfit = float(np.nanmax(np.abs(xa - xb))) / span
    tag = "noisy" if noisy else "noise-free"
    rec.maximum("%s: contact point difference / travel" % tag, dcp)
    rec.maximum("%s: |E_k k^p / E_1 - 1|" % tag, de)
    rec.maximum("%s: fit column difference / span" % tag, dfit)
    rec.check(dcp <= t_cp, "contact-point-depends-on-k",
              "contact point differs by %.3e of the travel (k=%r)" % (dcp, k),
              case)
    rec.check(dbl <= t_cp, "baseline-depends-on-k",
              "baseline differs by %.3e of the span (k=%r)" % (dbl, k), case)
    rec.check(de <= t_e, "modulus-not-k^-p",
              "E_k k^p / E_1 - 1 = %.3e (k=%r, p=%r)" % (de, k, p_exp), case)
    rec.check(np.array_equal(np.isnan(xa), np.isnan(xb)) and dfit <= t_cp,
              "fit-column-depends-on-k",
              "fit column differs by %.3e of the span" % dfit, case)
    same_mask = np.array_equal(np.asarray(ia["fit range"]),
                               np.asarray(ib["fit range"]))
    if same_mask:
        for key in ("xmin", "xmax"):
            rec.check(abs(fa[key] - fb[key]) <= 4 * EPS * abs(fb[key]),
                      "xmin-xmax-depend-on-k",
                      "%s: %r (k=%r) vs %r (k=1)" % (key, fa[key], k,
                                                     fb[key]), case)
    elif not noisy and mode != "rel":
        rec.violation("fit-range-depends-on-k",
                      "fit range differs between k=%r and k=1" % k, case)
    if noisy:
        dchi = abs(fa["chi_sqr"] / fb["chi_sqr"] - 1) if same_mask else 0
        rec.maximum("noisy: chi_sqr rel. difference", dchi)
        rec.check(dchi <= 1e-6, "chi_sqr-depends-on-k",
                  "chi_sqr differs by %.3e" % dchi, case)
    rec.sample({"model": mk, "k": k, "mode": mode, "snr": spec["snr"],
                "E_k": pa["E"].value, "E_1": pb["E"].value,
                "E_k*k^p/E_1-1": de}, limit=4)


def direct_fitter(rec, spec, full, mk, p_exp, k, kw, cp_user, e0, case):
    """the fitter's documented keyword interface, on a curve that was fitted
    before with k = 1: IndentationFitter(idnt, gcf_k=k, ...).fit()"""
    from nanite.fit import IndentationFitter
    out = {}
    for kk in (k, 1.0):
        idnt, truth = fitlab.build_curve(spec)
        p1 = gen.nanite_params(mk, dict(full))
        p1["E"].value = e0
        p1["contact_point"].value = cp_user
        p1["baseline"].value = 0.0
        try:
            idnt.fit_model(params_initial=copy.deepcopy(p1), gcf_k=1.0,
                           **copy.deepcopy(kw))
            pk = copy.deepcopy(p1)
            pk["E"].value = e0 * kk ** (-p_exp)
            f = IndentationFitter(idnt, gcf_k=kk, params_initial=pk,
                                  **copy.deepcopy(kw))
            f.fit()
        except BaseException as e:  # noqa
            rec.event("direct fitter interface raised " + type(e).__name__)
            return
        if not f.fp.get("success"):
            return
        out[kk] = copy.deepcopy(dict(f.fp))
        if kk == 1.0 and k != 1.0:
            # the same fitter is used again with another factor (its
            # settings edited, modulus start value adapted)
            try:
                f.fp["gcf_k"] = k
                pk2 = copy.deepcopy(p1)
                pk2["E"].value = e0 * k ** (-p_exp)
                f.fp["params_initial"] = pk2
                f.fit()
            except BaseException as e:  # noqa
                rec.event("re-used fitter raised " + type(e).__name__)
            else:
                if f.fp.get("success") and k in out:
                    rec.event("fitters used again with another factor")
                    qa, qb = f.fp["params_fitted"], out[k]["params_fitted"]
                    de2 = abs(qa["E"].value / qb["E"].value - 1)
                    dc2 = abs(qa["contact_point"].value
                              - qb["contact_point"].value) / truth["travel"]
                    rec.check(de2 <= 1e-2 and dc2 <= 1e-2 and
                              abs(f.fp["xmin"] - out[k]["xmin"])
                              <= 1e-9 * truth["travel"],
                              "direct-fitter/re-used-fitter-differs",
                              "a fitter used with k=1 and then with k=%r "
                              "gives E %.3e off, contact point %.3e of the "
                              "travel off, xmin %r vs %r, compared with a "
                              "new fitter for that k"
                              % (k, de2, dc2, f.fp["xmin"], out[k]["xmin"]),
                              case)
    # the fitter guesses the initial parameters itself when none are given
    # (curve not fitted before): the guess is in measured units for every k
    guess = {}
    for kk in (k, 1.0):
        idnt, _t = fitlab.build_curve(spec)
        try:
            if "tip position" not in idnt.columns:
                idnt.apply_preprocessing(["compute_tip_position"])
            f = IndentationFitter(idnt, gcf_k=kk, model_key=mk,
                                  segment=kw.get("segment", 0),
                                  weight_cp=0)
            guess[kk] = f.fp["params_initial"]["contact_point"].value
        except BaseException as e:  # noqa
            rec.event("fitter guess raised " + type(e).__name__)
            break
    if len(guess) == 2:
        rec.event("initial guesses of the fitter compared (k vs 1)")
        rec.check(guess[k] == guess[1.0],
                  "direct-fitter/guessed-cp-not-in-measured-units",
                  "IndentationFitter(idnt, gcf_k=%r) guesses the initial "
                  "contact point %r, with k=1 %r" % (k, guess[k],
                                                     guess[1.0]), case)
    rec.event("twins through the fitter's keyword interface")
    rec.evaluated(dg=(spec, k, kw, "direct-fitter"))
    pa, pb = out[k]["params_fitted"], out[1.0]["params_fitted"]
    de = abs(pa["E"].value * k ** p_exp / pb["E"].value - 1)
    dcp = abs(pa["contact_point"].value - pb["contact_point"].value) \
        / truth["travel"]
    rec.check(out[k].get("gcf_k") == k, "direct-fitter/gcf_k-not-the-keyword",
              "IndentationFitter(idnt, gcf_k=%r) reports gcf_k=%r"
              % (k, out[k].get("gcf_k")), case)
    rec.check(de <= 1e-2 and dcp <= 1e-2, "direct-fitter/modulus-not-k^-p",
              "IndentationFitter(idnt, gcf_k=%r) on a curve fitted before "
              "with k=1: E_k k^p / E_1 - 1 = %.3e, contact point differs by "
              "%.3e of the travel" % (k, de, dcp), case)


def run_shard(rec, tier, seed, shard, nshards):
    with fitlab.MinimizeTap() as tap:
        for i in range(N_CASES[tier]):
            one_case(rec, tap, core.case_rng(seed, ID, shard, i), [shard, i])


def replay(rec, case):
    cid = case["case"]["id"]
    with fitlab.MinimizeTap() as tap:
        one_case(rec, tap, core.case_rng(case["seed"], ID, cid[0], cid[1]),
                 cid)
