"""C05 - exactly the requested points are fitted."""
import copy

import numpy as np

from .. import core, gen, fitlab

ID = "C05"
LEVEL = "exploration"
ANCHORS = [("fit.py", "IndentationFitter.fit"),
           ("fit.py", "IndentationFitter._fit"),
           ("fit.py", "IndentationFitter.compute_emodulus_vs_mindelta"),
           ("fit.py", "IndentationFitter.compute_opt_mindelta"),
           ("indent.py", "Indentation.compute_emodulus_mindelta")]
MIN_EVALS = {"quick": 1200, "thorough": 25000}
MIN_EVENTS = {"absolute-range fits judged": 300,
              "refits of the same object with nudged bounds": 100,
              "stand-alone E(delta) scans judged": 30,
              "relative-cp fits judged": 150, "plateau fits judged": 100,
              "interval bounds placed on sample abscissae": 200}
TIMEOUT = {"quick": 900, "thorough": 3500}
N_CASES = {"quick": 110, "thorough": 6000}     # per shard
RULE = ("case = (curve, segment, interval with bounds drawn from the sample "
        "abscissae / inverted / one-sided infinite / disjoint / zero width, "
        "range type absolute | relative cp | plateau search, sample count "
        "7..25, gcf_k); the abscissa array handed to the last "
        "lmfit.minimize call is compared bytewise with k*x[fit range]; "
        "distinct by digest of curve spec + settings")
ASSUMPTIONS = [
    "what was optimised is observed at the lmfit.minimize boundary (tap), "
    "the expected mask is recomputed from the stated closed interval",
    "plateau search needs >= 7 samples (scipy filtfilt) - stated domain",
    "'at convergence' clause judged only if the last two contact points "
    "agree to 1e-9 of the travel; samples within that distance of a bound "
    "are exempt"]


def shards(tier):
    return 16


def one_case(rec, tap, rng, cid):
    spec = fitlab.draw_curve_spec(
        rng, models=["hertz_para", "hertz_cone", "sneddon_spher_approx",
                     "hertz_pyr3s"],
        npts=(40, 120, 300, 800, 1500), noise_snr=(0, 0, 100, 30))
    idnt, truth = fitlab.build_curve(spec)
    p0, ek = fitlab.initial_params(rng, spec, truth)
    seg = int(rng.integers(2))
    k = float(rng.choice([1, 1, .5, 2., .6135]))
    x = np.asarray(idnt["tip position"])
    xs = x[np.asarray(idnt["segment"]) == seg]
    mode = ["abs", "abs", "rel", "plat"][int(rng.integers(4))]
    if mode == "plat" and seg == 1:
        mode = "abs"
    onsample = 0

    def pick():
        nonlocal onsample
        r = rng.random()
        if r < .45:
            onsample += 1
            return float(xs[int(rng.integers(xs.size))])
        if r < .55:
            return float(rng.choice([-np.inf, np.inf]))
        return float(rng.uniform(-4e-6, 4.5e-6))
    kw = dict(model_key=spec["model"], params_initial=p0, segment=seg,
              gcf_k=k, weight_cp=float(rng.choice([0, 5e-7])))
    if mode == "abs" and rng.random() < .5:
        kw["optimal_fit_num_samples"] = int(rng.integers(7, 15))
    if mode == "abs":
        a, b = pick(), pick()
        if rng.random() < .12:
            b = a
        kw["range_x"] = [a, b] if rng.random() < .7 else (a, b)
    elif mode == "rel":
        kw["range_type"] = "relative cp"
        depth = truth["full"]["contact_point"] - spec["zmin"]
        far = spec["zmax"] - truth["full"]["contact_point"]
        a = -float(rng.uniform(.3, 1.2) * depth)
        b = float(rng.uniform(.05, 1.1) * far)
        r_ = rng.random()
        if r_ < .2:
            # one-sided interval
            if rng.random() < .5:
                a = -np.inf
            else:
                b = np.inf
            rec.event("one-sided contact-point-relative intervals")
        elif r_ < .5:
            # the contact point is held at the caller's value and the bounds
            # fall exactly on sample abscissae (closed interval: those
            # samples are used)
            cpf = float(p0["contact_point"].value)
            p0["contact_point"].vary = False
            below, above = xs[xs < cpf], xs[xs > cpf]

            def aligned(cands, fallback):
                for _ in range(8):
                    if cands.size == 0:
                        break
                    xv = float(cands[int(rng.integers(cands.size))])
                    for d_ in (xv - cpf, np.nextafter(xv - cpf, np.inf),
                               np.nextafter(xv - cpf, -np.inf)):
                        if cpf + d_ == xv:
                            return float(d_), True
                return fallback, False
            a, oka = aligned(below, a)
            b, okb = aligned(above, b)
            if oka or okb:
                rec.event("relative intervals with bounds on sample "
                          "abscissae (contact point held)", int(oka) + int(okb))
        if rng.random() < .2:
            a, b = b, a
        kw["range_x"] = [a, b]
    else:
        ns = int(rng.integers(7, 26))
        if xs.size <= 130 and rng.random() < .6:
            # more scan samples than data points in the segment
            ns = int(rng.integers(xs.size // 2, 2 * xs.size))
        a = pick()
        kw.update(optimal_fit_edelta=True, optimal_fit_num_samples=ns,
                  range_x=[a if np.isfinite(a) else 0.0,
                           float(rng.choice([np.inf, 5e-6, 0.0,
                                             float(xs.max()),
                                             float(np.median(xs[xs > 0])
                                                   if np.any(xs > 0)
                                                   else 1e-6)]))])
    settings = {a_: b_ for a_, b_ in kw.items() if a_ != "params_initial"}
    case = {"id": cid, "spec": spec, "settings": settings}
    tap.clear()
    try:
        idnt.fit_model(**kw)
    except BaseException as e:  # noqa
        # e.g. plateau search on a curve without negative abscissae
        rec.evaluated(dg=case, nontrivial=False)
        rec.event("fit_model raised %s" % type(e).__name__)
        return
    rec.evaluated(dg=(spec, settings), nontrivial=len(tap.log) > 0)
    rec.event("interval bounds placed on sample abscissae", onsample)
    if not idnt.fit_properties.get("success"):
        rec.event("unsuccessful (too few points) - nothing optimised")
        mask = np.asarray(idnt["fit range"]).astype(bool)
        a, b = idnt.fit_properties["range_x"]
        if mode == "abs":
            seg_m = np.asarray(idnt["segment"]) == seg
            exp = seg_m if a == b else seg_m & (x >= min(a, b)) \
                & (x <= max(a, b))
            rec.check(np.array_equal(mask, exp), "absolute/mask",
                      "unsuccessful fit: mask %d points, expected %d"
                      % (int(mask.sum()), int(exp.sum())), case)
        return
    got = fitlab.check_points(rec, idnt, kw, list(tap.log), case)
    if mode == "abs" and rng.random() < .6:
        # refit the same object with bounds moved by a few nanometres / to
        # the neighbouring sample: the points used must follow
        a0, b0 = idnt.fit_properties["range_x"]
        srt = np.sort(xs)

        def nudge(v):
            if not np.isfinite(v):
                return v
            if rng.random() < .5:
                j = int(np.clip(np.searchsorted(srt, v)
                                + int(rng.choice([-2, -1, 1, 2])),
                                0, srt.size - 1))
                return float(srt[j])
            return float(v + rng.choice([-1, 1]) * 10 ** rng.uniform(-10, -8))
        new = [nudge(a0), nudge(b0) if rng.random() < .7 else b0]
        if new[0] != new[1] and (new[0] != a0 or new[1] != b0):
            case2 = dict(case, second_range=new)
            tap.clear()
            try:
                idnt.fit_model(range_x=new)
            except BaseException as e:  # noqa
                rec.event("refit raised %s" % type(e).__name__)
            else:
                rec.evaluated(dg=(spec, settings, new))
                rec.event("refits of the same object with nudged bounds")
                if idnt.fit_properties.get("success"):
                    rec.check(len(tap.log) > 0,
                              "nudged-range/no-new-optimisation",
                              "range_x changed from %r to %r but nothing was "
                              "optimised" % ([a0, b0], new), case2)
                    fitlab.check_points(rec, idnt, kw, list(tap.log), case2,
                                        prefix="nudged-range/")
    if mode in ("abs", "plat") and seg == 0 and rng.random() < .35:
        # the scan as a stand-alone operation
        fpd = idnt.fit_properties
        ns = int(fpd["optimal_fit_num_samples"])
        had = "optimal_fit_E_array" in fpd
        n0 = tap.nfit()
        try:
            em, dl = idnt.compute_emodulus_mindelta()
        except BaseException as e:  # noqa
            rec.event("compute_emodulus_mindelta raised %s"
                      % type(e).__name__)
        else:
            rec.event("stand-alone E(delta) scans judged")
            em, dl = np.asarray(em), np.asarray(dl)
            if had:
                rec.check(tap.nfit() == n0, "scan/recomputed-although-stored",
                          "stored scan arrays were recomputed", case)
            else:
                rec.event("scan optimisations observed", tap.nfit() - n0)
            rec.check(em.size == ns and dl.size == ns, "scan/sample-count",
                      "scan arrays %d/%d entries, %d requested"
                      % (em.size, dl.size, ns), case)
            dd = np.diff(dl)
            rec.check(bool(np.all(dd > 0) or np.all(dd < 0)),
                      "scan/grid-not-monotonic", "depth grid not monotonic",
                      case)
            rec.check(bool(dl.min() >= xs.min() - 1e-18 and dl.max() <= 0),
                      "scan/grid-outside-indentation",
                      "depth grid [%r, %r] outside [min x, 0]"
                      % (dl.min(), dl.max()), case)
            # another number of samples is requested (via fit_model or by
            # editing the setting) and the scan is asked for again
            ns2 = int(ns + rng.integers(1, 6)) if rng.random() < .5 else \
                max(7, int(ns - rng.integers(1, 4)))
            if ns2 != ns:
                case3 = dict(case, scan_again_with=ns2)
                try:
                    if rng.random() < .5 and not fpd.get(
                            "optimal_fit_edelta"):
                        idnt.fit_model(optimal_fit_num_samples=ns2)
                    else:
                        fpd["optimal_fit_num_samples"] = ns2
                    em2, dl2 = idnt.compute_emodulus_mindelta()
                except BaseException as e:  # noqa
                    rec.event("second scan raised %s" % type(e).__name__)
                else:
                    rec.event("scans repeated with another sample count")
                    rec.evaluated(dg=(spec, settings, "rescan", ns, ns2))
                    rec.check(np.asarray(em2).size == ns2 and
                              np.asarray(dl2).size == ns2,
                              "scan/sample-count-after-change",
                              "%d samples requested after %d, scan arrays "
                              "have %d/%d entries"
                              % (ns2, ns, np.asarray(em2).size,
                                 np.asarray(dl2).size), case3)
    rec.sample({"model": spec["model"], "n": spec["n"], "mode": got,
                "settings": settings,
                "points_used": int(np.sum(idnt["fit range"]))}, limit=4)


N_MISMATCH = {"quick": 8, "thorough": 250}     # per shard


def mismatch_case(rec, rng, cid):
    """contact-point-relative range on a curve that does NOT follow the model
    outside the requested interval (stiffening at large depth, tilted
    baseline): the contact point moves from pass to pass.  Reference: the
    harness' own chain of absolute-range fits (whole segment, then re-anchored
    at the contact point fitted last); where that chain has converged (the
    last two passes use the same points) the library's final fit range has
    to be those points - 'at convergence the interval is [cp+a, cp+b]'."""
    spec = fitlab.draw_curve_spec(rng, models=["hertz_para"],
                                  npts=(400, 1000), noise_snr=(0, 300, 100),
                                  with_tip=True)

    def build():
        idnt, truth = fitlab.build_curve(spec)
        r = np.random.default_rng(spec["noise_seed"] + 1)
        f = np.array(idnt._raw_data["force"], copy=True)
        tip = np.array(idnt._raw_data["tip position"], copy=True)
        depth = np.clip(truth["full"]["contact_point"] - tip, 0, None)
        dmax = depth.max()
        f = f + truth["span"] * r.uniform(.05, .4) * 2 * (
            np.clip(depth - .5 * dmax, 0, None) / dmax) ** 2 \
            + truth["span"] * r.uniform(-.05, .05) * (tip - tip.min()) \
            / np.ptp(tip)
        idnt._raw_data["force"] = f
        return idnt, truth, dmax
    idnt, truth, dmax = build()
    a = -float(rng.uniform(.3, .6) * dmax)
    b = float(rng.uniform(.2, 1.) * (spec["zmax"]
                                     - truth["full"]["contact_point"]))
    case = {"id": cid, "spec": spec, "kind": "model-mismatch",
            "range_x": [a, b]}
    try:
        idnt.fit_model(model_key="hertz_para", range_type="relative cp",
                       range_x=[a, b], weight_cp=0)
    except BaseException as e:  # noqa
        rec.event("mismatch curve: relative fit raised " + type(e).__name__)
        return
    if not idnt.fit_properties.get("success"):
        return
    # reference chain (absolute ranges only)
    ref_i, _, _ = build()
    masks, cps = [], []
    try:
        ref_i.fit_model(model_key="hertz_para", range_type="absolute",
                        range_x=[0, 0], weight_cp=0)
        for _ in range(6):
            cp = ref_i.fit_properties["params_fitted"]["contact_point"].value
            cps.append(cp)
            ref_i.fit_model(range_x=[cp + a, cp + b])
            masks.append(np.array(ref_i["fit range"], dtype=bool))
    except BaseException as e:  # noqa
        rec.event("mismatch curve: reference chain raised "
                  + type(e).__name__)
        return
    rec.evaluated(dg=(spec, a, b, "mismatch"))
    # converged within the three re-anchored passes the library documents
    if not (np.array_equal(masks[1], masks[2]) and
            np.array_equal(masks[2], masks[5])):
        rec.event("mismatch curves whose reference chain has not converged "
                  "after three passes (not judged)")
        return
    rec.event("mismatch curves judged against the converged interval")
    got = np.array(idnt["fit range"], dtype=bool)
    rec.check(np.array_equal(got, masks[2]),
              "relative/not-the-converged-interval",
              "relative cp fit uses %d points, the converged interval "
              "[cp+a, cp+b] holds %d (%d differ); contact point moved by "
              "%.1f sample spacings between the first two passes"
              % (got.sum(), masks[2].sum(), int(np.sum(got != masks[2])),
                 abs(cps[1] - cps[0]) / (np.ptp(np.asarray(
                     idnt["tip position"])) / spec["n"] / 2)), case)


def _run_shard(rec, tier, seed, shard, nshards):
    for i in range(N_MISMATCH[tier]):
        cid = [shard, 10 ** 6 + i]
        mismatch_case(rec, core.case_rng(seed, ID, cid[0], cid[1]), cid)
    with fitlab.MinimizeTap() as tap:
        for i in range(N_CASES[tier]):
            one_case(rec, tap, core.case_rng(seed, ID, shard, i), [shard, i])
        rec.event("lmfit.minimize calls from nanite.fit", tap.nfit())


def replay(rec, case):
    cid = case["case"]["id"]
    with fitlab.MinimizeTap() as tap:
        one_case(rec, tap, core.case_rng(case["seed"], ID, cid[0], cid[1]),
                 cid)


def run_shard(rec, tier, seed, shard, nshards):
    state0 = core.library_state()
    try:
        _run_shard(rec, tier, seed, shard, nshards)
    finally:
        core.check_library_state(rec, state0, {"id": [shard, -1]})
