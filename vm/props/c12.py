"""C12 - the fit hash identifies data plus effective settings,
deterministically.  Metamorphic pairs on IndentationFitter(...).hash."""
import copy
import json
import os
import subprocess
import sys
import tempfile

import numpy as np

from .. import core, gen, fitlab

ID = "C12"
LEVEL = "exploration"
ANCHORS = [("fit.py", "IndentationFitter._hash"),
           ("fit.py", "obj2bytes"),
           ("fit.py", "FitProperties.__setitem__"),
           ("fit.py", "IndentationFitter.__init__")]
MIN_EVALS = {"quick": 3000, "thorough": 60000}
MIN_EVENTS = {"must-differ pairs": 1500, "must-be-equal pairs": 800,
              "cross-process hash comparisons": 60,
              "hash tied to fit_model": 20}
TIMEOUT = {"quick": 900, "thorough": 3500}
N_CASES = {"quick": 260, "thorough": 30000}     # pairs per shard
RULE = ("case = pair of (curve, settings) differing in exactly one thing: "
        "one default-settings key between two values of its domain, one "
        "attribute (value/min/max/vary/expr) of one initial parameter, the "
        "preprocessing list/options, or one data sample by 1 ulp (must "
        "differ); or a pure representation change / documented don't-care "
        "(must be equal); plus an adversarial class of value pairs whose "
        "float renderings concatenate identically; distinct by digest of the "
        "pair")
ASSUMPTIONS = [
    "the hash is read from IndentationFitter(idnt, **settings).hash (no fit "
    "needed); a subset is tied to fit_properties['hash'] after fit_model",
    "value domains are realistic SI magnitudes; the adversarial class is "
    "generated separately and reported under its own keys",
    "cross-process: children with PYTHONHASHSEED 0, 1, 12345 recompute a "
    "fixed list of hashes"]

MODELS = ["hertz_para", "hertz_cone", "hertz_pyr3s", "sneddon_spher_approx"]
PIPES = [[], ["compute_tip_position"],
         ["compute_tip_position", "correct_force_offset"],
         ["compute_tip_position", "correct_force_offset",
          "correct_tip_offset"],
         ["compute_tip_position", "correct_tip_offset",
          "correct_force_slope"]]
OPTS = [{}, {"correct_tip_offset": {"method": "fit_constant_line"}},
        {"correct_tip_offset": {"method": "deviation_from_baseline"}},
        {"correct_force_slope": {"region": "all", "strategy": "drift"}},
        {"correct_force_slope": {"region": "baseline", "strategy": "drift"}}]


def shards(tier):
    return 16


def H(idnt, **kw):
    from nanite.fit import IndentationFitter
    return IndentationFitter(idnt, **kw).hash


def base_curve(rng):
    spec = fitlab.draw_curve_spec(rng, models=MODELS, npts=(80, 200),
                                  noise_snr=(100,), with_tip=True)
    idnt, truth = fitlab.build_curve(spec)
    return spec, idnt


def rand_value(rng, key, spec):
    """a realistic value from the key's domain"""
    if key == "model_key":
        return MODELS[int(rng.integers(4))]
    if key == "optimal_fit_edelta":
        return bool(rng.integers(2))
    if key == "optimal_fit_num_samples":
        return int(rng.integers(7, 200))
    if key == "preprocessing":
        return copy.deepcopy(PIPES[int(rng.integers(len(PIPES)))])
    if key == "preprocessing_options":
        return copy.deepcopy(OPTS[int(rng.integers(len(OPTS)))])
    if key == "range_type":
        return ["absolute", "relative cp"][int(rng.integers(2))]
    if key == "range_x":
        a = float(-rng.uniform(.1, 4) * 10.0 ** int(rng.choice([-6, -7])))
        b = float(rng.uniform(.1, 4) * 10.0 ** int(rng.choice([-6, -7])))
        return [[a, b], [0, 0], [a, 0], [0, b]][int(rng.integers(4))]
    if key == "segment":
        return int(rng.integers(2))
    if key == "weight_cp":
        return [0, float(rng.uniform(.5, 20) * 1e-7)][int(rng.integers(2))]
    if key == "gcf_k":
        return float(rng.choice([1.0, .5, .6135, 2.0, rng.uniform(.1, 3)]))
    if key == "x_axis":
        return ["tip position", "height (measured)"][int(rng.integers(2))]
    if key == "method":
        return ["leastsq", "nelder", "least_squares", "powell", "lbfgsb"][
            int(rng.integers(5))]
    if key == "method_kws":
        return [{}, {"max_nfev": int(rng.integers(50, 5000))},
                {"ftol": float(10 ** rng.uniform(-12, -4))},
                {"max_nfev": int(rng.integers(50, 5000)),
                 "xtol": float(10 ** rng.uniform(-12, -4))}][
            int(rng.integers(4))]
    raise KeyError(key)


DIFF_KEYS = ["model_key", "optimal_fit_edelta", "preprocessing",
             "preprocessing_options", "range_type", "range_x", "segment",
             "weight_cp", "gcf_k", "x_axis", "method", "method_kws",
             "optimal_fit_num_samples"]


def effectively_equal(key, a, b, ctx):
    """value pairs that legitimately hash equal (same effect)"""
    if key == "weight_cp":
        return (not a and not b) or a == b
    if key == "optimal_fit_num_samples":
        return a == b or not ctx.get("optimal_fit_edelta")
    if key == "range_x" and ctx.get("optimal_fit_edelta"):
        return a[1] == b[1]
    return core.fp_unordered(a) == core.fp_unordered(b)


def settings_context(rng, spec):
    """random valid base settings (all other keys)"""
    ctx = {"model_key": spec["model"], "segment": int(rng.integers(2)),
           "weight_cp": float(rng.choice([0, 5e-7, 1e-6])),
           "gcf_k": float(rng.choice([1.0, .5])),
           "range_x": [float(-rng.uniform(.5, 2) * 1e-6),
                       float(rng.uniform(.5, 2) * 1e-6)],
           "method": ["leastsq", "nelder"][int(rng.integers(2))]}
    if rng.random() < .3:
        ctx["optimal_fit_edelta"] = True
        ctx["optimal_fit_num_samples"] = int(rng.integers(7, 50))
    elif rng.random() < .3:
        ctx["range_type"] = "relative cp"
    return ctx


def pair_differ(rec, rng, cid):
    spec, idnt = base_curve(rng)
    ctx = settings_context(rng, spec)
    kind = ["key"] * 10 + ["param"] * 4 + ["data"] * 2 + ["plateau-upper"]
    kind = kind[int(rng.integers(len(kind)))]
    case = {"id": cid, "class": "must-differ", "kind": kind, "curve": spec,
            "context": ctx}
    if kind == "plateau-upper":
        # plateau search on: the upper bound limits every fit of the scan,
        # also when the lower bound happens to equal it
        ctx.pop("range_type", None)
        ctx.update(optimal_fit_edelta=True, optimal_fit_num_samples=9)
        u = float(rng.uniform(-3, 3) * 1e-6)
        v = float(rng.uniform(-3, 3) * 1e-6)
        if u == v:
            return
        a = [[u, u], [float(rng.uniform(-3, 3) * 1e-6), u]][
            int(rng.integers(2))]
        b = [[v, v], [a[0], v]][int(rng.integers(2))]
        case.update(key="range_x", a=a, b=b)
        ha = H(idnt, **dict(ctx, range_x=a))
        hb = H(idnt, **dict(ctx, range_x=b))
        tag = "setting/range_x-upper-bound-plateau-on"
    elif kind == "key":
        key = DIFF_KEYS[int(rng.integers(len(DIFF_KEYS)))]
        if key in ("optimal_fit_edelta", "range_type"):
            ctx.pop("optimal_fit_edelta", None)
            ctx.pop("range_type", None)
        if key == "model_key":
            ctx.pop("optimal_fit_edelta", None)
        a = rand_value(rng, key, spec)
        for _ in range(20):
            b = rand_value(rng, key, spec)
            if not effectively_equal(key, a, b, ctx):
                break
        else:
            return
        case.update(key=key, a=a, b=b)
        try:
            ha = H(idnt, **dict(ctx, **{key: a}))
            hb = H(idnt, **dict(ctx, **{key: b}))
        except BaseException as e:  # noqa
            rec.event("invalid combination skipped (%s)" % type(e).__name__)
            return
        tag = "setting/" + key
    elif kind == "param":
        p = gen.nanite_params(spec["model"])
        p["contact_point"].value = float(rng.uniform(-3e-7, 3e-7))
        name = list(p)[int(rng.integers(len(p)))]
        attr = ["value", "min", "max", "vary", "expr"][int(rng.integers(5))]
        if rng.random() < .25:
            # the parameter whose attribute changes is constrained by an
            # expression (its bounds clip the expression value: they matter)
            name = "nu" if "nu" in p else list(p)[0]
            attr = ["min", "max", "expr"][int(rng.integers(3))]
            other = "E" if "E" in p else [n for n in p if n != name][0]
            p[name].set(expr="%s/%r" % (other, 6000.0))
            rec.event("must-differ pairs on an expression-constrained "
                      "parameter")
        q = copy.deepcopy(p)
        par = q[name]
        ref = abs(par.value) if par.value else 1e-7
        if attr == "value":
            par.value = par.value + ref * float(10 ** rng.uniform(-9, 0))
            if par.value > par.max:
                par.value = p[name].value - ref * 1e-3
        elif attr == "min":
            par.set(min=par.value - ref * float(rng.uniform(.5, 50)))
        elif attr == "max":
            par.set(max=par.value + ref * float(rng.uniform(.5, 50)))
        elif attr == "vary":
            par.vary = not par.vary
        else:
            other = [n for n in p if n != name][0]
            q[name].set(expr="%s*%r" % (other,
                                        float(rng.uniform(.1, 10))))
        def pstate(pp):
            return {n: (float(v.value), float(v.min), float(v.max),
                        bool(v.vary), v.expr) for n, v in pp.items()}
        if pstate(p) == pstate(q):
            return
        case.update(param=name, attr=attr, a=p, b=q)
        ha = H(idnt, **dict(ctx, params_initial=p))
        hb = H(idnt, **dict(ctx, params_initial=q))
        tag = "param/" + attr
    else:
        col = ["force", "tip position"][int(rng.integers(2))]
        j = int(rng.integers(len(idnt)))
        ha = H(idnt, **ctx)
        v = np.array(idnt[col], copy=True)
        v[j] = np.nextafter(v[j], np.inf if rng.random() < .5 else -np.inf)
        idnt[col] = v
        hb = H(idnt, **ctx)
        case.update(column=col, sample=j)
        tag = "data/" + col.replace(" ", "-")
    rec.evaluated(dg=case)
    rec.event("must-differ pairs")
    rec.event("must-differ " + tag.split("/")[0] + " pairs")
    rec.check(ha != hb, "collision/" + tag,
              "equal hash %s although %s differs" % (ha, tag), case)
    rec.sample({k: case[k] for k in case if k not in ("curve",)}, limit=2)


def pair_equal(rec, rng, cid):
    spec, idnt = base_curve(rng)
    ctx = settings_context(rng, spec)
    kind = ["tuple-list", "int-float", "bool-01", "dict-order",
            "segment-name", "num-samples-plateau-off",
            "range-lower-plateau-on", "two-objects", "params-copy",
            "params-route", "params-route", "neg-zero", "numpy-scalars"][
        int(rng.integers(13))]
    a, b = dict(ctx), dict(ctx)
    if kind == "tuple-list":
        b["range_x"] = tuple(ctx["range_x"])
    elif kind == "int-float":
        v = int(rng.integers(1, 4))
        a["gcf_k"], b["gcf_k"] = v, float(v)
        a["range_x"] = [0, ctx["range_x"][1]]
        b["range_x"] = [0.0, ctx["range_x"][1]]
        a["weight_cp"], b["weight_cp"] = 0, 0.0
    elif kind == "bool-01":
        a["weight_cp"], b["weight_cp"] = False, 0
        if "optimal_fit_edelta" in ctx:
            a["optimal_fit_edelta"], b["optimal_fit_edelta"] = True, 1
        a["segment"], b["segment"] = ctx["segment"], bool(ctx["segment"])
    elif kind == "dict-order":
        a["method_kws"] = {"max_nfev": 300, "ftol": 1e-9, "xtol": 1e-9}
        b["method_kws"] = {"xtol": 1e-9, "ftol": 1e-9, "max_nfev": 300}
        a["preprocessing_options"] = {
            "correct_tip_offset": {"method": "fit_constant_line"},
            "correct_force_slope": {"region": "all", "strategy": "drift"}}
        b["preprocessing_options"] = {
            "correct_force_slope": {"strategy": "drift", "region": "all"},
            "correct_tip_offset": {"method": "fit_constant_line"}}
    elif kind == "segment-name":
        a["segment"] = ["approach", "retract"][ctx["segment"]]
    elif kind == "num-samples-plateau-off":
        for d in (a, b):
            d.pop("optimal_fit_edelta", None)
        a["optimal_fit_num_samples"] = int(rng.integers(7, 50))
        b["optimal_fit_num_samples"] = int(rng.integers(51, 200))
    elif kind == "range-lower-plateau-on":
        for d in (a, b):
            d.pop("range_type", None)
            d["optimal_fit_edelta"] = True
            d["optimal_fit_num_samples"] = 9
        a["range_x"] = [float(-rng.uniform(.1, 3) * 1e-6), ctx["range_x"][1]]
        b["range_x"] = [float(-rng.uniform(.1, 3) * 1e-6), ctx["range_x"][1]]
        if rng.random() < .4:
            # (a lower bound that happens to equal the upper one is a lower
            #  bound like any other)
            up = float(rng.uniform(-3, 3) * 1e-6)
            a["range_x"] = [up, up]
            b["range_x"] = [float(rng.uniform(-3, 3) * 1e-6), up]
    elif kind == "params-copy":
        p = gen.nanite_params(spec["model"])
        p["contact_point"].value = 1.5e-7
        a["params_initial"] = p
        b["params_initial"] = copy.deepcopy(p)
    elif kind == "numpy-scalars":
        # the same numbers as NumPy scalars (e.g. taken from an array) and
        # as plain Python numbers
        a["weight_cp"], b["weight_cp"] = np.float64(2e-6), 2e-6
        a["gcf_k"], b["gcf_k"] = np.float64(ctx.get("gcf_k", 1.0)), \
            float(ctx.get("gcf_k", 1.0))
        a["range_x"] = [np.float64(ctx["range_x"][0]),
                        np.float64(ctx["range_x"][1])]
        b["range_x"] = [float(ctx["range_x"][0]), float(ctx["range_x"][1])]
        if "optimal_fit_edelta" in ctx:
            a["optimal_fit_edelta"], b["optimal_fit_edelta"] = \
                np.bool_(True), True
        # (np.int64 is not offered: obj2bytes has no rule for NumPy
        #  integers and raises - an input error, not a hash property)
    elif kind == "neg-zero":
        # -0.0 == 0.0: the same value in another representation
        which = int(rng.integers(3))
        if which == 0:
            a["range_x"], b["range_x"] = [0.0, ctx["range_x"][1]], \
                [-0.0, ctx["range_x"][1]]
        elif which == 1:
            a["weight_cp"], b["weight_cp"] = 0.0, -0.0
        else:
            pa = gen.nanite_params(spec["model"])
            pb = gen.nanite_params(spec["model"])
            pa["contact_point"].value = 0.0
            pb["contact_point"].value = -0.0
            a["params_initial"], b["params_initial"] = pa, pb
    elif kind == "params-route":
        # equal value/min/max/vary/expr for every parameter, reached along
        # different routes: attributes that cannot influence a fit (stderr,
        # correl, init_value, brute_step, user_data) differ
        route = ["assign-vs-set", "fit-result-vs-fresh", "brute-step",
                 "user-data", "insertion-order"][int(rng.integers(5))]
        kind = "params-route/" + route
        pa = gen.nanite_params(spec["model"])
        pb = gen.nanite_params(spec["model"])
        v = float(pa["E"].value * rng.uniform(.5, 2))
        c = float(rng.uniform(-2e-7, 2e-7))
        if route == "assign-vs-set":
            pa["E"].value = v
            pa["contact_point"].value = c
            pb["E"].set(value=v)
            pb["contact_point"].set(value=c)
        elif route == "fit-result-vs-fresh":
            i3 = fitlab.build_curve(spec)[0]
            i3.fit_model(model_key=spec["model"])
            pa = copy.deepcopy(i3.fit_properties["params_fitted"])
            for k in pa:
                pb[k].set(value=pa[k].value, min=pa[k].min, max=pa[k].max,
                          vary=pa[k].vary)
        elif route == "insertion-order":
            # the same parameters added in another order (dictionary
            # insertion order is a representation detail)
            import lmfit
            pa["E"].value = v
            pa["contact_point"].value = c
            pb = lmfit.Parameters()
            names = list(pa)
            order = [names[i] for i in rng.permutation(len(names))]
            if order == names:
                order = names[::-1]
            for n in order:
                pb.add(n, value=pa[n].value, min=pa[n].min, max=pa[n].max,
                       vary=pa[n].vary)
        elif route == "brute-step":
            pa["E"].value = pb["E"].value = v
            pa["E"].brute_step = 10.0
        else:
            pa["E"].value = pb["E"].value = v
            pa["E"].user_data = {"calibrated": True}
        a["params_initial"], b["params_initial"] = pa, pb
    case = {"id": cid, "class": "must-be-equal", "kind": kind, "curve": spec,
            "a": a, "b": b}
    try:
        ha = H(idnt, **a)
        idnt2 = fitlab.build_curve(spec)[0]
        hb = H(idnt2, **b)
    except BaseException as e:  # noqa
        rec.evaluated(dg=case)
        rec.violation("raises/%s/%s" % (kind, type(e).__name__),
                      "hash computation raised %s: %s" % (type(e).__name__,
                                                          str(e)[:80]), case)
        return
    rec.evaluated(dg=case)
    rec.event("must-be-equal pairs")
    rec.check(ha == hb, "differs/" + kind,
              "hashes differ (%s vs %s) for a pure %s change" % (ha, hb, kind),
              case)
    return ha, a


def adversarial(rec, rng, cid):
    """float renderings that concatenate identically"""
    spec, idnt = base_curve(rng)
    ctx = settings_context(rng, spec)
    ctx.pop("optimal_fit_edelta", None)
    d1 = int(rng.integers(1, 9))
    d2 = int(rng.integers(1, 99))
    d3 = int(rng.integers(1, 9))
    # [d1, d2.d3] vs [d1.0d2... ] : "d1.0" + "d2.d3" == "d1.0d2" + ".d3"
    a = [float(d1), float("%d.%d" % (d2, d3))]
    b = [float("%d.0%d" % (d1, d2)), float("0.%d" % d3)]
    if str(a[0]) + str(a[1]) != str(b[0]) + str(b[1]) or a == b:
        return
    key = "range_x"
    ha, hb = H(idnt, **dict(ctx, range_x=a)), H(idnt, **dict(ctx, range_x=b))
    case = {"id": cid, "class": "adversarial", "key": key, "a": a, "b": b}
    rec.evaluated(dg=case)
    rec.event("adversarial pairs")
    rec.check(ha != hb, "collision/list-concatenation/" + key,
              "%s = %r and %r hash equal (list items are concatenated "
              "without separators)" % (key, a, b), case)


def adversarial_settings(rec, rng, cid):
    """two scalar settings whose float renderings concatenate identically
    (whatever their order in the hashed list): 0.5 | 11.0 and 0.51 | 1.0"""
    spec, idnt = base_curve(rng)
    ctx = settings_context(rng, spec)
    ctx.pop("optimal_fit_edelta", None)
    p_, q_, r_ = (int(rng.integers(1, 10)) for _ in range(3))
    a = (float("0.%d" % p_), float("%d%d.0" % (q_, r_)))
    b = (float("0.%d%d" % (p_, q_)), float("%d.0" % r_))
    if str(a[0]) + str(a[1]) != str(b[0]) + str(b[1]) or a == b:
        return
    k1, k2 = [("weight_cp", "gcf_k"), ("gcf_k", "weight_cp")][
        int(rng.integers(2))]
    ha = H(idnt, **dict(ctx, **{k1: a[0], k2: a[1]}))
    hb = H(idnt, **dict(ctx, **{k1: b[0], k2: b[1]}))
    case = {"id": cid, "class": "adversarial-settings", "keys": [k1, k2],
            "a": a, "b": b}
    rec.evaluated(dg=case)
    rec.event("adversarial pairs")
    rec.event("adversarial pairs across two settings")
    rec.check(ha != hb, "collision/settings-concatenation/%s+%s" % (k1, k2),
              "%s, %s = %r and %r hash equal (the renderings of the two "
              "settings concatenate identically)" % (k1, k2, a, b), case)


def tie_to_fit(rec, rng, cid):
    spec, idnt = base_curve(rng)
    ctx = settings_context(rng, spec)
    ctx.pop("optimal_fit_edelta", None)
    ctx.pop("optimal_fit_num_samples", None)
    p = gen.nanite_params(spec["model"])
    p["contact_point"].value = 1e-7
    ctx["params_initial"] = p
    h = H(idnt, **copy.deepcopy(ctx))
    idnt.fit_model(**copy.deepcopy(ctx))
    rec.evaluated(dg=("tie", spec, ctx))
    rec.event("hash tied to fit_model")
    rec.check(idnt.fit_properties.get("hash") == h, "fit-hash/differs",
              "fit_properties['hash'] %s != IndentationFitter hash %s"
              % (idnt.fit_properties.get("hash"), h),
              {"id": cid, "class": "tie", "context": ctx})
    return h


def fitted_object(rec, rng, cid):
    """the hash of an object that has been fitted before is still a pure
    function of the current data and settings"""
    spec, idnt = base_curve(rng)
    ctx = settings_context(rng, spec)
    ctx.pop("optimal_fit_edelta", None)
    ctx.pop("optimal_fit_num_samples", None)
    p = gen.nanite_params(spec["model"])
    p["contact_point"].value = 1e-7
    ctx["params_initial"] = p
    case = {"id": cid, "class": "fitted-object", "curve": spec,
            "context": ctx}
    idnt.fit_model(**copy.deepcopy(ctx))
    h0 = idnt.fit_properties["hash"]
    # (a) same values, fitted object vs fresh object
    fresh = fitlab.build_curve(spec)[0]
    rec.evaluated(dg=("fitted-equal", spec, ctx))
    rec.event("must-be-equal pairs")
    rec.event("hashes of previously fitted objects")
    rec.check(H(idnt) == H(fresh, **copy.deepcopy(ctx)) == h0,
              "differs/fitted-vs-fresh-object",
              "IndentationFitter(fitted curve).hash %s, fresh curve with "
              "the same settings %s, fit hash %s"
              % (H(idnt), H(fresh, **copy.deepcopy(ctx)), h0), case)
    # (b) one data sample changed on the fitted object
    col = ["force", "tip position"][int(rng.integers(2))]
    j = int(rng.integers(len(idnt)))
    v = np.array(idnt[col], copy=True)
    v[j] = np.nextafter(v[j], np.inf)
    idnt[col] = v
    fresh[col] = v.copy()
    rec.evaluated(dg=("fitted-data", spec, ctx, col, j))
    rec.event("must-differ pairs")
    rec.event("must-differ data pairs")
    h1 = H(idnt)
    rec.check(h1 != h0, "collision/data-change-on-fitted-object",
              "hash unchanged (%s) after changing sample %d of '%s' on a "
              "curve that had been fitted before" % (h1, j, col), case)
    rec.check(h1 == H(fresh, **copy.deepcopy(ctx)),
              "differs/fitted-vs-fresh-object",
              "after the data change the fitted object hashes %s, a fresh "
              "object with the same data and settings %s"
              % (h1, H(fresh, **copy.deepcopy(ctx))), case)


def child_main(path):
    import warnings
    warnings.simplefilter("ignore")
    items = json.load(open(path))
    out = []
    for it in items:
        rng = core.case_rng(it["seed"], ID, it["shard"], it["case"])
        r = pair_equal(core.Recorder(ID, "quick", 0), rng, [0, 0])
        out.append(r[0] if r else None)
    print("HASHES " + json.dumps(out))


def cross_process(rec, seed, shard, ids, hashes):
    fd, path = tempfile.mkstemp(suffix=".json")
    os.close(fd)
    json.dump([{"seed": seed, "shard": shard, "case": i} for i in ids],
              open(path, "w"))
    try:
        for hs in ("0", "1", "12345"):
            p = subprocess.run([sys.executable, "-c",
                                "from vm.props import c12; "
                                "c12.child_main(%r)" % path],
                               env=dict(os.environ, PYTHONHASHSEED=hs),
                               capture_output=True, text=True, timeout=600,
                               cwd=str(core.VERIF))
            line = [ln for ln in p.stdout.splitlines()
                    if ln.startswith("HASHES ")]
            if not line:
                rec.inconclusive_because("cross-process child failed: "
                                         + p.stderr[-300:])
                return
            got = json.loads(line[0][7:])
            for i, h, g in zip(ids, hashes, got):
                rec.event("cross-process hash comparisons")
                rec.evaluated(dg=("xproc", hs, shard, i))
                rec.check(h == g, "differs/across-processes",
                          "hash %s here, %s with PYTHONHASHSEED=%s"
                          % (h, g, hs), {"id": [shard, i], "class": "xproc"})
    finally:
        os.unlink(path)


def run_shard(rec, tier, seed, shard, nshards):
    ids, hashes = [], []
    for i in range(N_CASES[tier]):
        rng = core.case_rng(seed, ID, shard, i)
        m = i % 20
        if m < 12:
            pair_differ(rec, rng, [shard, i])
        elif m < 18:
            r = pair_equal(rec, rng, [shard, i])
            if r and len(ids) < 8:
                ids.append(i)
                hashes.append(r[0])
        elif m == 18:
            adversarial(rec, rng, [shard, i])
            adversarial_settings(rec, core.case_rng(seed, ID, shard,
                                                    2 * 10 ** 6 + i),
                                 [shard, 2 * 10 ** 6 + i])
        else:
            tie_to_fit(rec, rng, [shard, i])
            fitted_object(rec, core.case_rng(seed, ID, shard, 10 ** 6 + i),
                          [shard, 10 ** 6 + i])
    if shard < 4:
        cross_process(rec, seed, shard, ids, hashes)


def replay(rec, case):
    c = case["case"]
    cid = c["id"]
    rng = core.case_rng(case["seed"], ID, cid[0], cid[1])
    {"must-differ": pair_differ, "must-be-equal": pair_equal,
     "adversarial": adversarial, "tie": tie_to_fit,
     "adversarial-settings": adversarial_settings,
     "fitted-object": fitted_object}.get(
        c.get("class"), pair_differ)(rec, rng, cid)
