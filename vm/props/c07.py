"""C07 - each preprocessing step does what its description says.

Every entry of preproc.PREPROCESSORS is wrapped in place: all columns are
snapshotted before and after each real step execution and the step's
contract is judged on that pair."""
import copy
import functools

import numpy as np

from .. import core, gen, fitlab
from . import c14

ID = "C07"
LEVEL = "exploration"
ANCHORS = [("preproc.py", "preproc_compute_tip_position"),
           ("preproc.py", "preproc_correct_force_offset"),
           ("preproc.py", "preproc_correct_tip_offset"),
           ("preproc.py", "preproc_correct_force_slope"),
           ("preproc.py", "preproc_correct_split_approach_retract"),
           ("preproc.py", "preproc_smooth_height"),
           ("preproc.py", "find_turning_point"),
           ("smooth.py", "smooth_axis_monotone")]
MIN_EVALS = {"quick": 2500, "thorough": 50000}
MIN_EVENTS = {"step executions judged: compute_tip_position": 200,
              "step executions judged: correct_force_offset": 150,
              "step executions judged: correct_tip_offset": 300,
              "step executions judged: correct_force_slope": 300,
              "step executions judged: correct_split_approach_retract": 100,
              "step executions judged: smooth_height": 100}
TIMEOUT = {"quick": 1200, "thorough": 3500}
N_CURVES = {"quick": 10, "thorough": 220}     # per shard
RULE = ("case = one real execution of a preprocessing step inside a pipeline "
        "on a well-formed curve (synthetic: 4 models x noise x tilt x "
        "temporal drift x lagged turning point x height noise; recorded "
        "non-'bad' curves) with option values drawn from all 6 contact-point "
        "methods, 3 regions, 2 strategies; the (before, after) column "
        "snapshot of every execution is judged; distinct by digest of "
        "(step, options, before-columns)")
ASSUMPTIONS = [
    "well-formed = synthetic curves with baseline >= 20% of the approach, "
    "SNR >= 20, physically sensible cantilever (maximum deflection 5-30 % "
    "of the travel), total height noise <= 0.45 sample spacing "
    "(smooth_axis_monotone gives up on noisier data), <= 2500 points per "
    "segment, plus the recorded curves not named 'bad'",
    "the contact index used as reference is nanite's own compute_poc applied "
    "to the 'before' force (the statement says 'estimated contact index')",
    "affinity of the slope correction judged to 1e-9 of its range; constant "
    "offsets to 4 eps of the column scale; remaining baseline slope <= 1e-3 "
    "of the original one (lmfit's line fit stops at its own tolerance); "
    "turning point = independent re-computation of the farthest point in "
    "normalised coordinates, +-2 samples"]

EPS = np.finfo(float).eps
OWNED = {"compute_tip_position": {"tip position"},
         "correct_force_offset": {"force"},
         "correct_tip_offset": {"tip position"},
         "correct_force_slope": {"force"},
         "correct_split_approach_retract": {"segment"},
         "smooth_height": {"height (measured)", "height (piezo)",
                           "tip position"}}
POC = ["deviation_from_baseline", "fit_constant_line",
       "fit_constant_polynomial", "fit_line_polynomial",
       "frechet_direct_path", "gradient_zero_crossing"]


def shards(tier):
    return 16


def snapshot(apret):
    return {c: np.array(apret[c], copy=True) for c in apret.columns}


class StepTap:
    def __init__(self, rec):
        from nanite import preproc
        self.preproc = preproc
        self.orig = list(preproc.PREPROCESSORS)
        self.rec = rec
        self.case = None

    def install(self):
        tap = self

        def wrap(f):
            @functools.wraps(f)
            def wrapper(apret, **kwargs):
                before = snapshot(apret)
                k = apret.metadata.get("spring constant")
                innate_tip = "tip position" in apret.columns_innate
                out = f(apret, **kwargs)
                after = snapshot(apret)
                try:
                    judge(tap.rec, f.identifier, kwargs, before, after, k,
                          innate_tip, tap.case)
                except BaseException as e:  # noqa
                    tap.rec.inconclusive_because(
                        "oracle crashed in %s: %r" % (f.identifier, e))
                return out
            return wrapper
        self.preproc.PREPROCESSORS[:] = [wrap(f) for f in self.orig]
        self.preproc.available.cache_clear()

    def remove(self):
        self.preproc.PREPROCESSORS[:] = self.orig
        self.preproc.available.cache_clear()


def fit_line(x, y):
    A = np.vstack([x, np.ones(x.size)]).T
    sc = np.abs(A).max(0)
    sc[sc == 0] = 1
    coef, *_ = np.linalg.lstsq(A / sc, y, rcond=None)
    return (A / sc) @ coef, coef[0] / sc[0]


def farthest_point(tip, force, idp):
    """independent reference for the turning point as the docstring defines
    it: the point farthest from the contact point in the direction of
    indentation, both axes normalised to [0, 1] between the contact point /
    baseline and their extreme values (offset and unit free)"""
    x = (tip[idp] - tip) / (tip[idp] - tip.min()) if tip.min() != tip[idp] \
        else np.zeros_like(tip)
    x = np.where(x > 0, x, 0.0)
    yb = force - np.mean(force[:idp])
    y = yb / yb.max()
    y = np.where(y < np.std(y[:idp]), 0.0, y)
    return int(np.argmax(x ** 2 + y ** 2))


def judge(rec, step, kwargs, before, after, k, innate_tip, case):
    from nanite import poc, preproc
    kw = {a: b for a, b in kwargs.items() if a != "ret_details"}
    case = dict(case or {}, step=step, options=kw)
    rec.evaluated(dg=(step, kw, core.fp(before)))
    rec.event("step executions judged: " + step)
    # -- columns not owned are byte-identical, nothing disappears
    for c in before:
        if c not in after:
            rec.violation("%s/column-removed" % step,
                          "column %r disappeared" % c, case)
        elif after[c].shape != before[c].shape:
            rec.violation("%s/length-changed" % step,
                          "column %r has %d points, before %d"
                          % (c, after[c].size, before[c].size), case)
        elif c not in OWNED[step]:
            rec.check(np.array_equal(after[c], before[c], equal_nan=True),
                      "%s/foreign-column-changed" % step,
                      "column %r changed although the step does not own it"
                      % c, case)
    for c in after:
        if c not in before:
            rec.check(c in OWNED[step], "%s/foreign-column-added" % step,
                      "column %r added" % c, case)
    n = before["force"].size
    if step == "compute_tip_position":
        if innate_tip:
            rec.check(np.array_equal(after["tip position"],
                                     before["tip position"]),
                      "compute_tip_position/innate-column-changed",
                      "innate tip position modified", case)
        else:
            want = before["height (measured)"] + before["force"] / k
            rec.check(np.array_equal(after["tip position"], want),
                      "compute_tip_position/not-height-plus-force-over-k",
                      lambda: "max deviation %r" % float(np.max(np.abs(
                          after["tip position"] - want))), case)
    elif step == "correct_force_offset":
        d = before["force"] - after["force"]
        scale = float(np.max(np.abs(before["force"])))
        rec.check(np.ptp(d) <= 4 * EPS * scale,
                  "correct_force_offset/not-a-constant",
                  "force changed by a non-constant (spread %r)"
                  % float(np.ptp(d)), case)
        idp = poc.compute_poc(before["force"].copy(),
                              "deviation_from_baseline")
        if idp:
            m = abs(float(np.mean(after["force"][:idp])))
            rec.maximum("force offset: |mean pre-contact force|/max|F|",
                        m / scale)
            rec.check(m <= 64 * EPS * scale,
                      "correct_force_offset/pre-contact-mean-not-zero",
                      "mean force before the contact index %d is %r "
                      "(scale %r)" % (idp, m, scale), case)
        else:
            rec.check(after["force"][0] == 0,
                      "correct_force_offset/first-sample", "no baseline: "
                      "first sample %r" % after["force"][0], case)
    elif step == "correct_tip_offset":
        meth = kw.get("method", "deviation_from_baseline")
        cpid = poc.compute_poc(before["force"].copy(), meth)
        d = before["tip position"] - after["tip position"]
        scale = float(np.max(np.abs(before["tip position"])))
        rec.check(np.ptp(d) <= 4 * EPS * scale,
                  "correct_tip_offset/not-a-constant",
                  "tip position changed by a non-constant (spread %r)"
                  % float(np.ptp(d)), case)
        rec.check(after["tip position"][cpid] == 0,
                  "correct_tip_offset/not-zero-at-contact-index",
                  "tip position at the estimated contact index %d (%s) is %r"
                  % (cpid, meth, after["tip position"][cpid]), case)
    elif step == "correct_force_slope":
        region = kw.get("region", "baseline")
        strategy = kw.get("strategy", "shift")
        tip = before["tip position"]
        absc = tip if strategy == "shift" else before["time"]
        idp = int(max(2, np.argmin(np.abs(tip))))
        fb, fa = before["force"], after["force"]
        d = fb - fa
        fscale = float(np.max(np.abs(fb)))
        nz = np.nonzero(d)[0]
        if region == "all":
            L = n
            rec.check(abs(d[idp]) <= 64 * EPS * fscale,
                      "correct_force_slope/jump-at-contact",
                      "correction at the contact index is %r" % d[idp], case)
        else:
            L = int(nz[-1]) + 2 if nz.size else idp
            L = min(L, n)
            rec.check(np.all(d[L:] == 0),
                      "correct_force_slope/outside-region-changed",
                      "data after the region changed", case)
            rec.check(abs(d[L - 1]) <= 64 * EPS * fscale,
                      "correct_force_slope/jump-at-region-end",
                      "correction at the last sample of the region is %r"
                      % d[L - 1], case)
            if region == "baseline":
                rec.check(L == idp or not nz.size,
                          "correct_force_slope/baseline-region-extent",
                          "baseline correction reaches sample %d, contact "
                          "index is %d" % (L, idp), case)
            else:
                far = max(2, farthest_point(tip, fb, idp))
                rec.check(abs(L - far) <= 2,
                          "correct_force_slope/approach-region-extent",
                          "approach correction reaches sample %d, the "
                          "farthest point (turning point) is %d" % (L, far),
                          case)
        if nz.size:
            lin, _ = fit_line(absc[:L], d[:L])
            dev = float(np.max(np.abs(d[:L] - lin)))
            rng_ = float(np.ptp(d[:L])) or 1e-300
            rec.maximum("slope correction: deviation from affine / range",
                        dev / rng_)
            # (the trend is recovered as a difference of forces: round-off
            #  of the forces themselves is the floor when the trend is tiny)
            rec.check(dev <= 1e-9 * rng_ + 64 * EPS * fscale,
                      "correct_force_slope/not-affine-in-%s" % (
                          "tip-position" if strategy == "shift" else "time"),
                      "subtracted trend deviates from an affine function of "
                      "the %s abscissa by %.2e of its range"
                      % (strategy, dev / rng_), case)
            _, sb = fit_line(absc[:idp], fb[:idp])
            _, sa = fit_line(absc[:idp], fa[:idp])
            floor = 1e-9 * fscale / (float(np.ptp(absc[:idp])) or 1e-300)
            rec.check(abs(sa) <= 1e-3 * abs(sb) + floor,
                      "correct_force_slope/baseline-trend-not-removed",
                      "baseline slope before %r, after %r" % (sb, sa), case)
    elif step == "correct_split_approach_retract":
        seg = after["segment"].astype(int)
        sw = np.nonzero(np.diff(seg))[0]
        idp0 = poc.poc_deviation_from_baseline(before["force"].copy())
        if not idp0 or np.isnan(idp0):
            # documented: no contact point estimate -> CannotSplitWarning,
            # segments are left as recorded (happens when earlier steps,
            # e.g. a slope correction after a poor contact estimate, have
            # removed the baseline)
            rec.event("segment discovery not possible (no contact estimate)")
            rec.check(np.array_equal(after["segment"], before["segment"]),
                      "split/changed-without-contact-estimate",
                      "segment changed although no contact point could be "
                      "estimated", case)
        else:
            rec.check(sw.size == 1 and seg[0] == 0 and seg[-1] == 1,
                      "split/not-a-single-switch",
                      "%d switches, first %d last %d" % (sw.size, seg[0],
                                                         seg[-1]), case)
            if sw.size == 1:
                far = farthest_point(before["tip position"],
                                     before["force"], int(idp0))
                rec.check(abs(sw[0] + 1 - far) <= 2,
                          "split/switch-not-at-farthest-point",
                          "switch at %d, farthest point from the contact "
                          "point (normalised axes) at %d; deepest point %d, "
                          "force maximum %d"
                          % (sw[0] + 1, far,
                             int(np.argmin(before["tip position"])),
                             int(np.argmax(before["force"]))), case)
    elif step == "smooth_height":
        seg = after["segment"]
        for c in OWNED[step]:
            if c not in after:
                continue
            for s in (0, 1):
                v = after[c][seg == s]
                if v.size < 2:
                    continue
                dv = np.diff(v)
                rec.check(bool(np.all(dv > 0) or np.all(dv < 0)),
                          "smooth_height/not-strictly-monotonic",
                          "column %r, segment %d: %d non-monotonic steps"
                          % (c, s, int(min(np.sum(dv >= 0),
                                           np.sum(dv <= 0)))), case)


def synthetic(rng):
    mk = gen.SHIPPED[int(rng.integers(4))]
    n = int(rng.choice([300, 700, 1500, 2500]))
    prm = gen.draw_params(rng, mk)
    zmax = float(rng.uniform(1.5e-6, 4e-6))
    zmin = -float(rng.uniform(1e-6, 3e-6))
    if "R" in prm:
        prm["R"] = max(prm["R"], 1.1 * abs(zmin))
    data, truth = gen.make_arrays(rng, mk, prm, cp=float(
        rng.uniform(-2e-7, 2e-7)), baseline=0.0, n_app=n, n_ret=n,
        zmax=zmax, zmin=zmin)
    f = data["force"]
    N = f.size
    Fmax = float(f.max())
    snr = float(rng.choice([500, 100, 25]))
    tilt = float(rng.choice([0, 0, .05]))
    drift = float(rng.choice([0, 0, .05]))
    f = f + rng.normal(0, Fmax / snr, N) \
        + tilt * Fmax * (data["tip position"] - zmax) / (zmin - zmax) \
        + drift * Fmax * np.linspace(0, 1, N) \
        + float(rng.choice([rng.uniform(-.3, .3), rng.uniform(-4, 4)])) * Fmax
    lag = int(rng.choice([0, 0, 3, 15, 25]))
    seg = data["segment"].copy()
    if lag:
        seg[n - lag:] = 1          # direction flips before deepest point
    flag = int(rng.choice([0, 0, 0, 10, 25])) if n >= 700 else 0
    if flag:
        # the force lags behind the tip position (force maximum after the
        # deepest point)
        f = np.concatenate([np.full(flag, f[0]), f[:-flag]])
    spacing = (zmax - zmin) / n
    # physically sensible cantilever: maximum deflection 5-30 % of the
    # travel, but stiff enough that the force noise does not shake the height
    # by more than 0.15 sample spacings (well-formedness: total height noise
    # <= 0.45 spacing; smooth_axis_monotone gives up on noisier data)
    frac = min(float(rng.uniform(.05, .3)), .15 * snr / n)
    k_spring = Fmax / (frac * (zmax - zmin))
    hnoise = float(rng.choice([0, .1, .3])) * spacing
    data = dict(data, force=f, segment=seg)
    data["height (measured)"] = data["tip position"] - f / k_spring \
        + (rng.normal(0, hnoise, N) if hnoise else 0)
    if rng.random() < .4:
        data["height (piezo)"] = data["tip position"] \
            + (rng.normal(0, hnoise, N) if hnoise else 0)
    with_tip = bool(rng.random() < .25)
    desc = {"model": mk, "n": n, "snr": snr, "tilt": tilt, "drift": drift,
            "lag": lag, "force_lag": flag, "height_noise_over_spacing": hnoise / spacing,
            "with_tip": with_tip}
    desc["spring_constant"] = k_spring
    return (lambda: gen.make_indentation(data, with_tip=with_tip,
                                         spring=k_spring)), desc


def pipelines(rng):
    """pipelines that exercise every step with varying options"""
    req, opt = c14.rules()
    out = []
    for _ in range(5):
        steps, options = None, {}
        from . import c06
        steps, options = c06.valid_request(rng, req, opt)
        out.append((steps, options))
    # make sure each step/option family appears regularly
    m = POC[int(rng.integers(6))]
    out.append((["compute_tip_position", "correct_force_offset",
                 "correct_tip_offset"],
                {"correct_tip_offset": {"method": m}}))
    out.append((["compute_tip_position", "correct_tip_offset",
                 "correct_force_slope", "correct_force_offset"],
                {"correct_tip_offset": {"method": POC[int(rng.integers(6))]},
                 "correct_force_slope": {
                     "region": ["baseline", "approach", "all"][
                         int(rng.integers(3))],
                     "strategy": ["shift", "drift"][int(rng.integers(2))]}}))
    out.append((["compute_tip_position", "correct_split_approach_retract",
                 "smooth_height"], {}))
    return out


def one_curve(rec, tap, rng, cid):
    if rng.random() < .2:
        files = [p for p in sorted(gen.DATA.glob("fmt-jpk-fd_s*.jpk-force"))
                 if "bad" not in p.name]
        path = files[int(rng.integers(len(files)))]
        factory = lambda: gen.load_recorded(path)     # noqa
        desc = "recorded:" + path.name
    else:
        factory, desc = synthetic(rng)
    for steps, options in pipelines(rng):
        if isinstance(desc, dict) and desc["lag"] and \
                "smooth_height" in steps and \
                "correct_split_approach_retract" not in steps:
            # with a lagged turning point the recorded retract segment is
            # V-shaped: smoothing is only meaningful after segment discovery
            rec.event("pipelines outside the well-formed class (smoothing a "
                      "lagged curve without segment discovery)")
            continue
        idnt = factory()
        tap.case = {"id": cid, "curve": desc, "pipeline": steps,
                    "pipeline_options": options}
        try:
            idnt.apply_preprocessing(copy.deepcopy(steps),
                                     copy.deepcopy(options),
                                     ret_details=bool(rng.random() < .2))
        except BaseException as e:  # noqa
            key = "pipeline-raises/%s" % type(e).__name__
            if "max_iter" in str(e):
                key = "smooth_height/smooth_axis_monotone-gives-up-max_iter"
            rec.violation(key,
                          "pipeline %s raised %s: %s on a well-formed curve"
                          % (steps, type(e).__name__, str(e)[:80]), tap.case)
    rec.sample({"curve": desc, "pipeline": steps, "options": options},
               limit=2)


def known_witness(rec):
    """Frozen input of the defect D18 (recorded arrays of a generated
    well-formed lagged curve, vm/data; repaired since): run on every check
    so that the failure is reported whatever the seed if it ever returns."""
    import json
    import pathlib
    here = pathlib.Path(__file__).resolve().parent.parent / "data"
    info = json.loads((here / "c07_known_smooth_max_iter.json").read_text())
    arrs = np.load(here / "c07_known_smooth_max_iter.npz")
    from nanite.indent import Indentation
    meta = dict(info["meta"])
    meta["path"] = pathlib.Path(meta["path"])
    idnt = Indentation(data={k: np.array(arrs[k]) for k in arrs.files},
                       metadata=meta)
    case = {"id": [0, -1], "curve": "frozen witness vm/data/"
            "c07_known_smooth_max_iter.npz", "pipeline": info["steps"],
            "pipeline_options": info["options"]}
    rec.event("frozen witness of the smoothing defect D18 applied")
    try:
        idnt.apply_preprocessing(copy.deepcopy(info["steps"]),
                                 copy.deepcopy(info["options"]))
    except ValueError as e:
        if "max_iter" in str(e):
            rec.violation(
                "smooth_height/smooth_axis_monotone-gives-up-max_iter",
                "pipeline %s raised ValueError: %s on a well-formed curve"
                % (info["steps"], str(e)[:80]), case)
        else:
            raise
    else:
        rec.event("frozen witness of the smoothing defect D18 passes")


def run_shard(rec, tier, seed, shard, nshards):
    tap = StepTap(rec)
    tap.install()
    try:
        if shard == 0:
            tap.case = {"id": [0, -1], "curve": "frozen witness"}
            known_witness(rec)
        for i in range(N_CURVES[tier]):
            one_curve(rec, tap, core.case_rng(seed, ID, shard, i), [shard, i])
    finally:
        tap.remove()


def replay(rec, case):
    cid = case["case"]["id"]
    tap = StepTap(rec)
    tap.install()
    try:
        one_curve(rec, tap, core.case_rng(case["seed"], ID, cid[0], cid[1]),
                  cid)
    finally:
        tap.remove()
