"""C16 - rating containers round-trip and only ever grow (fault enumeration
at the h5py write calls inside a save)."""
import copy
import hashlib
import pathlib
import shutil
import tempfile

import numpy as np

from .. import core, gen, fitlab

ID = "C16"
LEVEL = "fault_enumeration"
ANCHORS = [("rate/io.py", "save_hdf5"), ("rate/io.py", "load_hdf5"),
           ("rate/io.py", "load"), ("rate/io.py", "hdf5_rated"),
           ("rate/io.py", "RateManager.ratings"),
           ("rate/io.py", "hash_file")]
MIN_EVALS = {"quick": 400, "thorough": 6000}
MIN_EVENTS = {"round trips judged": 40, "write faults injected": 150,
              "saves of a different fit": 15,
              "same curve saved again": 15}
TIMEOUT = {"quick": 1200, "thorough": 3500}
N_SEQ = {"quick": 2, "thorough": 60}     # save sequences per shard
N_FAULT_SAVES = {"quick": 1, "thorough": 20}   # fault-enumerated saves/shard
RULE = ("case = save sequence over fitted curves from synthetic files (2-3 "
        "enumerations per file) and recorded curves: new curve / same curve "
        "again with other user fields / same curve with a different fit "
        "(other model, range, segment); round trip judged per stored entry; "
        "fault enumeration: for a container holding earlier ratings EVERY "
        "h5py write call (create_group, create_dataset, attribute write) of "
        "the next save is made to raise once; distinct by digest of (curve, "
        "fit settings, operation) resp. (save kind, write call number)")
ASSUMPTIONS = [
    "faults are exceptions raised at h5py write calls; a process killed "
    "inside the HDF5 library is out of reach of any h5py-level code",
    "structural dump ignores the attributes 'user time', 'user time str'",
    "settings compared by value (tuple/list and numpy scalars tolerant), "
    "Parameters by (value, min, max, vary, expr)"]

COLS = ["force", "tip position", "segment", "fit", "fit residuals",
        "fit range"]
USER_ATTRS = {"user comment", "user name", "user rate", "user time",
              "user time str"}
TIME_ATTRS = {"user time", "user time str"}


def shards(tier):
    return 16


# ---------------------------------------------------------------------------
def make_file(rng, path, n_curves):
    """synthetic measurement file with several enumerations"""
    import h5py
    specs = []
    with h5py.File(path, "w") as h5:
        for en in range(n_curves):
            spec = fitlab.draw_curve_spec(
                rng, models=["hertz_para", "hertz_cone"], npts=(150, 650),
                noise_snr=(100, 30), with_tip=bool(rng.integers(2)))
            rs = np.random.default_rng(spec["noise_seed"])
            span = float(gen.ref.force(
                spec["model"], np.array([spec["zmin"]]),
                dict(spec["params"], contact_point=spec["cp"],
                     baseline=0.0))[0])
            data, _ = gen.make_arrays(rs, spec["model"], spec["params"],
                                      cp=spec["cp"],
                                      baseline=spec["baseline"],
                                      n_app=spec["n"], n_ret=spec["n"],
                                      zmax=spec["zmax"], zmin=spec["zmin"],
                                      noise=span / spec["snr"])
            idnt = gen.make_indentation(data, with_tip=spec["with_tip"],
                                        path=str(path), enum=en)
            idnt.export_data(h5, metadata=True, fmt="hdf5")
            specs.append(spec)
    return specs


NKW = 10       # number of fit variants in fitted_curve


def fitted_curve(rng, path, enum, variant=0):
    """load curve `enum` of `path`, preprocess and fit (variant selects the
    fit settings)"""
    from nanite import IndentationGroup
    idnt = IndentationGroup(path).get_enum(enum)
    has_tip = "tip position" in idnt.columns_innate
    if has_tip and variant % 2 == 0:
        pipe = []          # innate tip position: nothing to do
    else:
        pipe = ["compute_tip_position", "correct_force_offset",
                "correct_tip_offset"]
    idnt.apply_preprocessing(pipe)
    kws = [dict(model_key="hertz_para"),
           dict(model_key="hertz_cone"),
           dict(model_key="hertz_para", range_x=(-1e-6, 1e-6)),
           dict(model_key="hertz_para", segment=1),
           dict(model_key="sneddon_spher_approx", weight_cp=0,
                method_kws={"max_nfev": 800}),
           dict(model_key="hertz_para", optimal_fit_edelta=True,
                optimal_fit_num_samples=8, range_x=[-5e-6, 5e-6]),
           # unsuccessful fit (no points in range): all-NaN fit column
           dict(model_key="hertz_para", range_x=[1e-3, 1.001e-3]),
           # numerically equivalent to variant 0 (other optimiser tolerance)
           dict(model_key="hertz_para", method_kws={"ftol": 1e-10}),
           # half-open intervals (infinite bounds are legal)
           dict(model_key="hertz_para", range_x=(-np.inf, 2e-7)),
           dict(model_key="hertz_para", range_x=[-1e-6, np.inf])]
    kw = kws[variant % len(kws)]
    try:
        idnt.fit_model(**copy.deepcopy(kw))
    except BaseException:  # noqa
        idnt.fit_model(model_key="hertz_para")
        kw = dict(model_key="hertz_para")
    return idnt, kw, pipe


def dump(path):
    """structural dump of a container (without the time stamps)"""
    import h5py
    out = {}
    if not pathlib.Path(path).exists():
        return out
    with h5py.File(path, "r") as h5:
        def visit(name, obj):
            ent = {"attrs": {k: core.fp(v if not isinstance(v, bytes) else v)
                             for k, v in obj.attrs.items()
                             if k not in TIME_ATTRS}}
            if isinstance(obj, h5py.Dataset):
                ent["data"] = hashlib.md5(
                    np.ascontiguousarray(obj[...]).tobytes()).hexdigest()
                ent["dtype"] = str(obj.dtype)
            out[name] = ent
        h5.visititems(visit)
    return out


def value_equal(a, b):
    import lmfit
    if isinstance(a, lmfit.Parameters) and isinstance(b, lmfit.Parameters):
        def st(p):
            return {n: (float(v.value), float(v.min), float(v.max),
                        bool(v.vary), v.expr) for n, v in p.items()}
        sa, sb = st(a), st(b)
        return set(sa) == set(sb) and all(
            sa[n] == sb[n] or (np.isnan(sa[n][0]) and np.isnan(sb[n][0]))
            for n in sa)
    if isinstance(a, np.ndarray) or isinstance(b, np.ndarray):
        return np.array_equal(np.asarray(a), np.asarray(b), equal_nan=True)
    if isinstance(a, (list, tuple)) and isinstance(b, (list, tuple)):
        return len(a) == len(b) and all(value_equal(x, y)
                                        for x, y in zip(a, b))
    if isinstance(a, dict) and isinstance(b, dict):
        return set(a) == set(b) and all(value_equal(a[k], b[k]) for k in a)
    if isinstance(a, (bool, np.bool_)) or isinstance(b, (bool, np.bool_)):
        return bool(a) == bool(b)
    if isinstance(a, (int, float, np.number)) and \
            isinstance(b, (int, float, np.number)):
        return float(a) == float(b) or (np.isnan(float(a))
                                        and np.isnan(float(b)))
    return a == b


def judge_roundtrip(rec, h5path, idnt, user, case):
    """the entry of `idnt` in the container equals the curve"""
    from nanite.rate.io import load_hdf5, hdf5_rated
    from nanite.rate.features import IndentationFeatures as IF
    from nanite.rate.io import hash_file
    rec.event("round trips judged")
    try:
        loaded = load_hdf5(h5path)
        meta = load_hdf5(h5path, meta_only=True)
    except BaseException as e:  # noqa
        rec.violation("roundtrip/load-raises/" + type(e).__name__,
                      "load_hdf5 raised %s: %s" % (type(e).__name__,
                                                  str(e)[:80]), case)
        return
    rec.check(len(loaded) == len(meta), "roundtrip/meta-only-count",
              "%d entries, %d with meta_only" % (len(loaded), len(meta)),
              case)
    mine = [r for r in loaded if r["enum"] == idnt.enum and
            r["data_set"].path.name.endswith(idnt.path.name)]
    if not rec.check(len(mine) == 1, "roundtrip/entry-missing",
                     "%d entries for enum %d of %s" % (len(mine), idnt.enum,
                                                       idnt.path.name), case):
        return
    r = mine[0]
    ds = r["data_set"]
    for col in COLS:
        try:
            same_col = col in ds and np.array_equal(
                np.asarray(ds[col]), np.asarray(idnt[col]), equal_nan=True)
        except BaseException as e:  # noqa
            rec.violation("roundtrip/column-unreadable/"
                          + col.replace(" ", "-"),
                          "column '%s' of the loaded curve cannot be read: "
                          "%s %s" % (col, type(e).__name__, str(e)[:60]),
                          case)
            continue
        rec.check(same_col, "roundtrip/column/" + col.replace(" ", "-"),
                  "column '%s' differs after the round trip" % col, case)
    fa, fb = dict(idnt.fit_properties), dict(ds.fit_properties)
    for k in fa:
        if k not in fb:
            rec.violation("roundtrip/setting-missing/" + k,
                          "fit property '%s' missing after the round trip"
                          % k, case)
            continue
        rec.check(value_equal(fa[k], fb[k]), "roundtrip/setting/" + k,
                  "fit property '%s': stored %r, loaded %r"
                  % (k, core.jsonable(fa[k]), core.jsonable(fb[k])), case)
    rec.check(r["name"] == user[1] and float(r["rating"]) == float(user[0])
              and r["comment"] == user[2], "roundtrip/user-fields",
              "user fields %r, stored %r" % ((r["rating"], r["name"],
                                              r["comment"]), user), case)
    try:
        f0 = IF.compute_features(idnt)
        f1 = IF.compute_features(ds)
        rec.check(np.array_equal(f0, f1, equal_nan=True),
                  "roundtrip/features-differ",
                  "rating features of the loaded curve differ", case)
    except BaseException as e:  # noqa
        rec.violation("roundtrip/features-raise/" + type(e).__name__,
                      "compute_features raised %s" % str(e)[:80], case)
    ir = hdf5_rated(h5path, idnt)
    rec.check(ir[0] is True and float(ir[1]) == float(user[0])
              and ir[2] == user[2], "roundtrip/hdf5_rated",
              "hdf5_rated -> %r, expected rated with %r" % (ir, user), case)


def save(h5path, idnt, user):
    from nanite.rate.io import save_hdf5
    try:
        save_hdf5(h5path, idnt, user[0], user[1], user[2])
    except BaseException as e:  # noqa
        return "EXC:" + type(e).__name__
    return "ok"


def sequence(rec, rng, cid, scratch):
    scratch = pathlib.Path(scratch)
    files = []
    for j in range(2):
        f = scratch / ("meas_%d_%d_%d.h5" % (cid[0], cid[1], j))
        # (now and then more than ten curves: the base library lists them
        #  "0, 1, 10, 11, 2, ...", position in the file != enumeration)
        make_file(rng, f, int(rng.integers(2, 4)) if rng.random() < .75
                  else int(rng.integers(11, 14)))
        files.append(f)
    recs = gen.recorded_single_curves()
    files.append(recs[int(rng.integers(len(recs)))])
    h5path = scratch / ("ratings_%d_%d.h5" % (cid[0], cid[1]))
    stored = {}       # (path, enum) -> (variant, user, idnt)
    hist = []
    from nanite import IndentationGroup
    for step in range(int(rng.integers(5, 10))):
        path = files[int(rng.integers(len(files)))]
        nen = len(IndentationGroup(path))
        enum = int(rng.integers(nen))
        key = (str(path), enum)
        user = (int(rng.integers(0, 11)), "user%d" % rng.integers(3),
                "comment %d" % rng.integers(1000))
        if rng.random() < .4:
            # ratings are numbers, not necessarily integers
            user = (float(rng.integers(0, 20)) / 2, user[1], user[2])
        if rng.random() < .25:
            # empty user fields are values like any other (e.g. a comment
            # that is withdrawn when the curve is rated again)
            user = (user[0], "" if rng.random() < .3 else user[1], "")
        if key in stored and rng.random() < .5:
            op = "same-again"
            variant = stored[key][0]
            if rng.random() < .5:
                # another user confirms rating and comment: only the name
                # (or only one of the fields) changes
                old_user = stored[key][1]
                which = int(rng.integers(3))
                user = (user[0] if which == 0 else old_user[0],
                        "user%d" % rng.integers(3, 9) if which == 1
                        else old_user[1],
                        user[2] if which == 2 else old_user[2])
        elif key in stored:
            op = "different-fit"
            variant = stored[key][0] + int(rng.integers(1, 8))
            if stored[key][0] % NKW == 0 and rng.random() < .4:
                variant = 7       # numerically equivalent refit
        else:
            op = "new"
            variant = int(rng.integers(NKW))
        idnt, kw, pipe = fitted_curve(rng, path, enum, variant)
        case = {"id": cid, "kind": "sequence",
                "history": hist + [[op, path.name, enum, kw, pipe]]}
        before = dump(h5path)
        res = save(h5path, idnt, user)
        after = dump(h5path)
        hist.append([op, path.name, enum, kw, pipe, res])
        rec.evaluated(dg=(path.name, enum, kw, pipe, op))
        near_identical = False
        if op == "different-fit":
            rec.event("saves of a different fit")
            fa_ = np.asarray(idnt["fit"])
            fb_ = np.asarray(stored[key][2]["fit"])
            same_fit = np.array_equal(fa_, fb_, equal_nan=True)
            clearly = not np.array_equal(np.isnan(fa_), np.isnan(fb_)) or \
                np.nanmax(np.abs(fa_ - fb_)) > 1e-3 * np.nanmax(np.abs(fb_))
            if same_fit or not clearly:
                # refusal is demanded only for clearly different fits (the
                # library compares with a relative tolerance of 1e-5)
                rec.event("'different' settings gave a (nearly) identical "
                          "fit")
                if res != "ok":
                    continue
                # accepted as "the same curve again": the container keeps
                # the stored fit, ONLY the user fields may change
                near_identical = True
            else:
                rec.check(res == "EXC:ValueError",
                          "different-fit/not-refused",
                          "storing a different fit (%s after variant %d) for "
                          "an already stored curve: %s"
                          % (kw, stored[key][0], res), case)
                rec.check(after == before, "different-fit/file-changed",
                          lambda: "container changed by a refused save: %s"
                          % sorted(k for k in set(after) | set(before)
                                   if after.get(k) != before.get(k))[:4],
                          case)
                if res == "ok":
                    stored[key] = (variant, user, idnt)
                continue
        if res != "ok":
            rec.violation("save-raises/%s/%s" % (op, res),
                          "save_hdf5 raised %s for operation %s" % (res, op),
                          case)
            continue
        # growth: every pre-existing entry unchanged (same-again: only the
        # user fields of that one group may change)
        changed = sorted(k for k in before if after.get(k) != before[k])
        if op in ("same-again", "different-fit"):
            rec.event("same curve saved again")
            bad = []
            for k in changed:
                a_, b_ = after[k], before[k]
                rest_a = {x: v for x, v in a_["attrs"].items()
                          if x not in USER_ATTRS}
                rest_b = {x: v for x, v in b_["attrs"].items()
                          if x not in USER_ATTRS}
                if rest_a != rest_b or a_.get("data") != b_.get("data"):
                    bad.append(k)
            rec.check(not bad and len(changed) <= 1,
                      "same-curve-again/more-than-user-fields-changed",
                      "re-saving changed %s" % changed, case)
            rec.check(set(after) == set(before),
                      "same-curve-again/entries-added",
                      "re-saving added %s" % sorted(set(after) - set(before)),
                      case)
        else:
            rec.check(not changed, "growth/existing-entries-altered",
                      "saving a new curve altered %s" % changed[:4], case)
        if near_identical:
            # the entry still holds the first fit and its settings
            stored[key] = (stored[key][0], user, stored[key][2])
            judge_roundtrip(rec, h5path, stored[key][2], user, case)
        else:
            stored[key] = (variant, user, idnt)
            judge_roundtrip(rec, h5path, idnt, user, case)
    # finally: every stored entry is still there with its last user fields
    from nanite.rate.io import load_hdf5, RateManager
    meta = load_hdf5(h5path, meta_only=True) if h5path.exists() else []
    rec.check(len(meta) == len(stored), "growth/entry-count",
              "%d entries, %d curves stored" % (len(meta), len(stored)),
              {"id": cid, "history": hist})
    if h5path.exists():
        rm = RateManager(h5path)
        rec.check(len(rm.ratings) == len(stored), "growth/ratemanager-count",
                  "RateManager sees %d of %d" % (len(rm.ratings),
                                                 len(stored)),
                  {"id": cid, "history": hist})
    if h5path.exists() and stored:
        folder_load(rec, rng, cid, scratch, h5path, stored, hist)
    rec.sample({"history": hist}, limit=1)
    return files, h5path, stored


def folder_load(rec, rng, cid, scratch, h5path, stored, hist):
    """two containers in one folder that hold the same curve with different
    fits (within one container that is refused, across containers it is
    legal): loading the folder returns every entry as stored"""
    from nanite.rate.io import load
    folder = pathlib.Path(scratch) / ("folder_%d_%d" % tuple(cid))
    folder.mkdir()
    a = folder / "a_first.h5"
    b = folder / "b_second.h5"
    shutil.copy(h5path, a)
    expect = {("a_first.h5",) + k: v[2] for k, v in stored.items()}
    for key in list(stored)[:2]:
        variant = stored[key][0]
        v2 = [0, 1, 2, 3][(variant + 1 + int(rng.integers(3))) % 4]
        if v2 == variant % NKW:
            v2 = (v2 + 1) % 4
        idnt, kw, pipe = fitted_curve(rng, pathlib.Path(key[0]), key[1], v2)
        if save(b, idnt, (5, "other", "second container")) == "ok":
            expect[("b_second.h5",) + key] = idnt
    case = {"id": cid, "history": hist, "kind": "folder-load"}
    rec.event("folders with two containers loaded")
    rec.evaluated(dg=("folder", cid, sorted(str(k) for k in expect)))
    try:
        got = load(folder)
    except BaseException as e:  # noqa
        rec.violation("folder-load/raises/" + type(e).__name__,
                      "load(folder) raised %s" % str(e)[:80], case)
        shutil.rmtree(folder, ignore_errors=True)
        return
    rec.check(len(got) == len(expect), "folder-load/entry-count",
              "%d entries loaded, %d stored in the two containers"
              % (len(got), len(expect)), case)
    # entries come container by container (sorted paths), in container order
    from nanite.rate.io import load_hdf5
    per = load_hdf5(a, meta_only=True), load_hdf5(b, meta_only=True) \
        if b.exists() else []
    names = ["a_first.h5"] * len(per[0]) + ["b_second.h5"] * len(per[1])
    for cont, r in zip(names, got):
        ds = r["data_set"]
        cand = [v for k, v in expect.items() if k[0] == cont and
                k[2] == r["enum"] and
                ds.path.name.endswith(pathlib.Path(k[1]).name)]
        if not rec.check(len(cand) == 1, "folder-load/entry-unknown",
                         "entry enum %r of %s not among the stored ones"
                         % (r["enum"], cont), case):
            continue
        rec.event("folder entries compared with what was stored")
        for col in COLS:
            try:
                same_col = col in ds and np.array_equal(
                    np.asarray(ds[col]), np.asarray(cand[0][col]),
                    equal_nan=True)
            except BaseException:  # noqa
                same_col = False
            rec.check(same_col,
                "folder-load/column/" + col.replace(" ", "-"),
                "container %s: column '%s' differs from what was stored "
                "there" % (cont, col), case)
        rec.check(ds.fit_properties.get("hash") ==
                  cand[0].fit_properties.get("hash"),
                  "folder-load/fit-properties",
                  "container %s: fit hash differs from what was stored"
                  % cont, case)
    shutil.rmtree(folder, ignore_errors=True)


class FaultInjector:
    """count / fail the n-th h5py write call"""

    def __init__(self):
        import h5py._hl.group as G
        import h5py._hl.attrs as A
        self.G, self.A = G, A
        self.orig = dict(cd=G.Group.create_dataset,
                         cg=G.Group.create_group,
                         at=A.AttributeManager.__setitem__)
        self.n = 0
        self.fail_at = None
        self.log = []

    def __enter__(self):
        inj = self

        def wrap(name, fn):
            def w(self_, *a, **k):
                inj.n += 1
                inj.log.append((name, str(a[0])[:40] if a else ""))
                if inj.fail_at is not None and inj.n == inj.fail_at:
                    raise OSError("injected fault at %s #%d" % (name, inj.n))
                return fn(self_, *a, **k)
            return w
        self.G.Group.create_dataset = wrap("create_dataset", self.orig["cd"])
        self.G.Group.create_group = wrap("create_group", self.orig["cg"])
        self.A.AttributeManager.__setitem__ = wrap("attr", self.orig["at"])
        return self

    def __exit__(self, *a):
        self.G.Group.create_dataset = self.orig["cd"]
        self.G.Group.create_group = self.orig["cg"]
        self.A.AttributeManager.__setitem__ = self.orig["at"]


def fault_enumeration(rec, rng, cid, scratch, files, base, stored):
    """every write call of the next save fails once"""
    from nanite.rate.io import load_hdf5, hdf5_rated, RateManager, save_hdf5
    from nanite import IndentationGroup
    scratch = pathlib.Path(scratch)
    earlier = sorted((r["enum"], r["name"], float(r["rating"]), r["comment"])
                     for r in load_hdf5(base, meta_only=True))
    # the next save: a new curve (new file if possible) or a re-save
    kinds = ["new-curve-new-file", "new-curve-known-file", "same-again"]
    kind = kinds[int(rng.integers(3))]
    if kind == "same-again" and stored:
        key = sorted(stored)[int(rng.integers(len(stored)))]
        idnt = stored[key][2]
    else:
        f = scratch / ("fault_meas_%d_%d.h5" % (cid[0], cid[1]))
        if kind == "new-curve-new-file" or not files:
            make_file(rng, f, 2)
            idnt, _, _ = fitted_curve(rng, f, 0, int(rng.integers(6)))
        else:
            cand = [(p, e) for p in files[:2]
                    for e in range(len(IndentationGroup(p)))
                    if (str(p), e) not in stored]
            if not cand:
                make_file(rng, f, 2)
                cand = [(f, 0)]
            p, e = cand[int(rng.integers(len(cand)))]
            idnt, _, _ = fitted_curve(rng, p, e, int(rng.integers(6)))
    user = (7, "faulty", "during fault")
    with FaultInjector() as inj:
        probe = scratch / "probe.h5"
        shutil.copy(base, probe)
        inj.n = 0
        save_hdf5(probe, idnt, *user)
        nwrites = inj.n
        log = list(inj.log)
        rec.note("write calls in the fault-enumerated save (%s)" % kind,
                 nwrites)
        for k in range(1, nwrites + 1):
            target = scratch / ("fault_%d.h5" % k)
            shutil.copy(base, target)
            inj.n = 0
            inj.fail_at = k
            try:
                save_hdf5(target, idnt, *user)
                outcome = "ok"
            except OSError:
                outcome = "failed"
            except BaseException as e:  # noqa
                outcome = "EXC:" + type(e).__name__
            inj.fail_at = None
            case = {"id": cid, "kind": "fault", "save_kind": kind,
                    "write_call": k, "call": list(log[k - 1]),
                    "of": nwrites}
            rec.event("write faults injected")
            rec.evaluated(dg=("fault", kind, k, log[k - 1]))
            rec.check(outcome == "failed", "fault/harness",
                      "fault %d did not surface: %s" % (k, outcome), case)
            mech = "%s:%s" % (log[k - 1][0],
                              "user-attr" if log[k - 1][1].startswith("user")
                              else "fit-attr" if log[k - 1][1].startswith(
                                  "fit ") and log[k - 1][0] == "attr"
                              else log[k - 1][1].split(" ")[0][:12])
            for name, fn in [
                    ("load_hdf5", lambda: load_hdf5(target)),
                    ("load_hdf5-meta_only",
                     lambda: load_hdf5(target, meta_only=True)),
                    ("RateManager", lambda: [
                        {"enum": r["enum"], "name": r["name"],
                         "rating": r["rating"], "comment": r["comment"]}
                        for r in RateManager(target).ratings])]:
                try:
                    got = fn()
                except BaseException as e:  # noqa
                    rec.violation(
                        "fault/earlier-ratings-unreadable/%s/%s"
                        % (name, type(e).__name__),
                        "after a save that failed at write call %d/%d (%s) "
                        "%s raises %s: %s" % (k, nwrites, log[k - 1], name,
                                              type(e).__name__, str(e)[:60]),
                        dict(case, mechanism=mech))
                    continue
                have = sorted((r["enum"], r["name"], float(r["rating"]),
                               r["comment"]) for r in got)
                missing = [e for e in earlier if e not in have]
                if kind == "same-again":
                    # the re-saved entry may carry old or new user fields
                    missing = [e for e in missing
                               if e[0] != idnt.enum]
                rec.check(not missing, "fault/earlier-ratings-lost/" + name,
                          "after the failed save %s no longer returns %s"
                          % (name, missing[:2]), case)
            for key, (variant, usr, old) in sorted(stored.items())[:3]:
                try:
                    ir = hdf5_rated(target, old)
                    ok = ir[0] is True
                except BaseException as e:  # noqa
                    ok = False
                    ir = type(e).__name__
                if not (kind == "same-again" and old is idnt):
                    rec.check(ok, "fault/hdf5_rated-loses-earlier",
                              "hdf5_rated for an earlier curve: %r" % (ir,),
                              case)
            target.unlink()


def run_shard(rec, tier, seed, shard, nshards):
    scratch = tempfile.mkdtemp(prefix="nv_c16_")
    try:
        last = None
        for i in range(N_SEQ[tier]):
            rng = core.case_rng(seed, ID, shard, i)
            last = sequence(rec, rng, [shard, i], scratch)
            if i < N_FAULT_SAVES[tier] and last[1].exists():
                fault_enumeration(rec, rng, [shard, i], scratch, *last)
    finally:
        shutil.rmtree(scratch, ignore_errors=True)


def replay(rec, case):
    cid = case["case"]["id"]
    scratch = tempfile.mkdtemp(prefix="nv_c16_")
    try:
        rng = core.case_rng(case["seed"], ID, cid[0], cid[1])
        last = sequence(rec, rng, cid, scratch)
        if case["case"].get("kind") == "fault" and last[1].exists():
            fault_enumeration(rec, rng, cid, scratch, *last)
    finally:
        shutil.rmtree(scratch, ignore_errors=True)
