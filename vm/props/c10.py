"""C10 - arguments are taken by value: no mutation of, no aliasing to, caller
objects.  Twin executions: A re-uses one object and edits it in place, B is
always handed fresh equal-valued copies; what a user can observe must agree.
"""
import copy

import numpy as np

from .. import core, gen, fitlab
from . import c03, c06

ID = "C10"
LEVEL = "exploration"
ANCHORS = [("fit.py", "FitProperties.__setitem__"),
           ("fit.py", "IndentationFitter._fit"),
           ("preproc.py", "apply"),
           ("indent.py", "Indentation.apply_preprocessing"),
           ("indent.py", "Indentation.get_initial_fit_parameters"),
           ("poc.py", "compute_poc"),
           ("rate/rater.py", "get_rater")]
MIN_EVALS = {"quick": 800, "thorough": 15000}
MIN_EVENTS = {"argument fingerprints compared (entry vs exit)": 3000,
              "twin states compared": 1200}
TIMEOUT = {"quick": 900, "thorough": 3500}
N_CASES = {"quick": 60, "thorough": 3500}     # per shard
RULE = ("case = (scenario: which mutable argument [Parameters value/min/max/"
        "vary/expr, range_x list, method_kws dict, preprocessing list, "
        "options dict, returned Parameters, force array, training set "
        "arrays], which in-place edit, gcf_k, range type); twin A (same "
        "object edited in place) vs twin B (fresh deep copies); distinct by "
        "digest of (scenario, edit, settings, curve)")
ASSUMPTIONS = [
    "observable state = stored settings, hash/results snapshot, all data "
    "columns, reported preprocessing; compared by value (bitwise arrays)",
    "twin B receives deepcopy()s taken immediately before each call",
    "fingerprints of every mutable argument are taken at entry and exit of "
    "each API call (always-on wrappers)"]

SCEN = ["params_value", "params_vary", "params_minmax", "params_expr",
        "params_max", "params_min", "params_tiny", "range_x_tiny",
        "range_x", "method_kws", "prep_list", "prep_options",
        "prep_list_via_fit", "returned_params", "returned_params_unpassed",
        "prep_list_unpassed", "force_array", "rater_arrays", "model_args",
        "rate_names_list", "rate_training_set_arrays",
        "handed_out_preproc_attrs", "full_respec", "full_respec",
        "returned_model_defaults"]


def shards(tier):
    return 16


def observable(idnt):
    snap = c03.snapshot(idnt)
    return {"snapshot": snap,
            "settings": core.fp_unordered(c03.stored_settings(idnt)),
            "columns": c06.columns_fp(idnt),
            "preprocessing": core.fp(idnt.preprocessing),
            "preprocessing_options": core.fp_unordered(
                idnt.preprocessing_options)}


def diff_obs(a, b):
    out = []
    d = c03.same(a["snapshot"], b["snapshot"])
    if d is not None:
        out.append("snapshot:" + d)
    for k in a:
        if k == "snapshot":
            continue
        if a[k] != b[k]:
            if isinstance(a[k], dict) and isinstance(b[k], dict):
                out.append("%s:%s" % (k, ",".join(
                    sorted(c for c in set(a[k]) | set(b[k])
                           if a[k].get(c) != b[k].get(c)))))
            else:
                out.append(k)
    return out


class Guard:
    """fingerprint arguments at entry and exit of a call"""

    def __init__(self, rec, case):
        self.rec = rec
        self.case = case

    def call(self, name, func, *args, **kwargs):
        before = [core.fp(a) for a in args] + \
            [(k, core.fp(v)) for k, v in sorted(kwargs.items())]
        exc = None
        try:
            out = func(*args, **kwargs)
        except BaseException as e:  # noqa
            exc, out = e, None
        after = [core.fp(a) for a in args] + \
            [(k, core.fp(v)) for k, v in sorted(kwargs.items())]
        self.rec.event("argument fingerprints compared (entry vs exit)",
                       len(before))
        if before != after:
            changed = [i for i, (x, y) in enumerate(zip(before, after))
                       if x != y]
            names = []
            for i in changed:
                names.append(sorted(kwargs)[i - len(args)]
                             if i >= len(args) else "arg%d" % i)
            self.rec.violation("argument-mutated/%s/%s" % (name,
                                                           "+".join(names)),
                               "%s modified its argument(s) %s"
                               % (name, names), self.case)
        if exc is not None:
            return "EXC:" + type(exc).__name__
        return out


def base_curve(rng, npts=(200, 400)):
    spec = fitlab.draw_curve_spec(rng, models=["hertz_para", "hertz_cone"],
                                  npts=npts, noise_snr=(100, 30),
                                  with_tip=False)
    rs = np.random.default_rng(spec["noise_seed"])
    span = float(gen.ref.force(spec["model"], np.array([spec["zmin"]]),
                               dict(spec["params"], contact_point=spec["cp"],
                                    baseline=0.0))[0])
    data, truth = gen.make_arrays(rs, spec["model"], spec["params"],
                                  cp=spec["cp"], baseline=spec["baseline"],
                                  n_app=spec["n"], n_ret=spec["n"],
                                  zmax=spec["zmax"], zmin=spec["zmin"],
                                  noise=span / spec["snr"])
    return spec, data


def fit_settings(rng):
    kw = {"gcf_k": float(rng.choice([1.0, .5, 2.0])),
          "segment": int(rng.integers(2)),
          "weight_cp": float(rng.choice([0, 5e-7]))}
    mode = int(rng.integers(3))
    if mode == 1:
        kw["range_type"] = "relative cp"
        kw["range_x"] = [-1e-6, 5e-7]
    elif mode == 2 and kw["segment"] == 0:
        kw["optimal_fit_edelta"] = True
        kw["optimal_fit_num_samples"] = 8
        kw["range_x"] = [0, 2e-6]
    return kw


def edit_params(rng, p, what):
    """in-place edit of an lmfit.Parameters object"""
    if what == "params_value":
        n = ["E", "contact_point", "baseline"][int(rng.integers(3))]
        if n == "E":
            p[n].value = p[n].value * float(rng.uniform(.4, 2.5))
        elif n == "contact_point":
            p[n].value = p[n].value + float(rng.uniform(-2e-7, 2e-7))
        else:
            p[n].value = p[n].value + float(rng.uniform(-2e-11, 2e-11))
    elif what == "params_vary":
        n = ["baseline", "contact_point", "nu"][int(rng.integers(3))]
        p[n].vary = not p[n].vary
    elif what == "params_minmax":
        # new bounds (optimum stays interior: a parameter pinned to a bound
        # makes lmfit's result irreproducible in the last digits)
        p["E"].set(min=p["E"].value * float(rng.uniform(.001, .05)),
                   max=p["E"].value * float(rng.uniform(50, 1000)))
    elif what == "params_expr":
        p["baseline"].set(expr="contact_point*1e-4")
    elif what == "params_max":
        # only the upper bound of one parameter changes
        n = ["E", "contact_point", "baseline"][int(rng.integers(3))]
        if n == "E":
            p[n].set(max=p[n].value * float(rng.uniform(20, 1e4)))
        else:
            p[n].set(max=abs(p[n].value) + float(10 ** rng.uniform(-7, -4)))
    elif what == "params_min":
        n = ["E", "contact_point", "baseline"][int(rng.integers(3))]
        if n == "E":
            p[n].set(min=p[n].value * float(rng.uniform(1e-6, 1e-2)))
        else:
            p[n].set(min=-abs(p[n].value) - float(10 ** rng.uniform(-7, -4)))
    elif what == "params_tiny":
        # edits far below any "close enough" tolerance in SI units
        n = ["E", "contact_point", "baseline", "geom"][int(rng.integers(4))]
        if n == "geom":
            n = "R" if "R" in p else "alpha"
        if n == "E":
            p[n].value = p[n].value * (1 + float(10 ** rng.uniform(-9, -5)))
        elif n == "contact_point":
            p[n].value = p[n].value + float(rng.choice([-1, 1])
                                            * 10 ** rng.uniform(-11, -8.1))
        elif n == "baseline":
            p[n].value = p[n].value + float(10 ** rng.uniform(-16, -12))
        elif n == "R":
            p[n].value = p[n].value + float(10 ** rng.uniform(-10, -8.1))
        else:
            p[n].value = p[n].value * (1 + float(10 ** rng.uniform(-8, -5)))


def scenario(rec, rng, cid):
    sc = SCEN[int(rng.integers(len(SCEN)))]
    # (curves with < 600 approach points are rated 0 whatever the rater)
    spec, data = base_curve(rng, (700,) if sc.startswith("rate_") else
                            (200, 400))
    case = {"id": cid, "scenario": sc, "curve": spec}
    g = Guard(rec, case)
    pipe = ["compute_tip_position", "correct_force_offset",
            "correct_tip_offset"]
    rec.event("scenario " + sc)

    def twins():
        a = gen.make_indentation(data, with_tip=False)
        b = gen.make_indentation(data, with_tip=False)
        return a, b

    def compare(a, b, stage):
        rec.event("twin states compared")
        d = diff_obs(observable(a), observable(b))
        rec.check(not d, "aliasing/%s/%s" % (sc, stage),
                  "twin that re-used one object differs from the twin given "
                  "fresh copies in %s (%s)" % (d, stage), case)

    if sc in ("params_value", "params_vary", "params_minmax", "params_expr",
              "params_max", "params_min", "params_tiny", "range_x",
              "range_x_tiny", "method_kws"):
        a, b = twins()
        for t in (a, b):
            t.apply_preprocessing(list(pipe))
        kw = fit_settings(rng)
        mk = spec["model"]
        case["settings"] = kw
        if sc.startswith("params_"):
            obj = a.get_initial_fit_parameters(model_key=mk)
            obj = copy.deepcopy(obj)
            obj["E"].value = spec["params"]["E"] * 1.3
            key = "params_initial"
        elif sc in ("range_x", "range_x_tiny"):
            obj = [-1.5e-6, 1e-6]
            kw.pop("range_x", None)
            kw.pop("optimal_fit_edelta", None)
            key = "range_x"
        else:
            obj = {"ftol": 1e-10}
            key = "method_kws"
        o0 = copy.deepcopy(obj)
        g.call("fit_model", a.fit_model, model_key=mk,
               **dict(copy.deepcopy(kw), **{key: obj}))
        g.call("fit_model", b.fit_model, model_key=mk,
               **dict(copy.deepcopy(kw), **{key: copy.deepcopy(o0)}))
        compare(a, b, "after-first-call")
        rec.check(core.fp(obj) == core.fp(o0),
                  "argument-mutated/fit_model/%s" % key,
                  "%s changed by fit_model: %s -> %s"
                  % (key, core.jsonable(o0), core.jsonable(obj)), case)
        # in-place edit
        if sc.startswith("params_"):
            edit_params(rng, obj, sc)
        elif sc == "range_x":
            obj[int(rng.integers(2))] *= float(rng.uniform(.3, .8))
        elif sc == "range_x_tiny":
            for j in range(2):
                if j == 0 or rng.random() < .5:
                    obj[j] += float(rng.choice([-1, 1])
                                    * 10 ** rng.uniform(-11, -8.1))
        else:
            # (not max_nfev: lmfit's result after an aborted fit is not
            #  reproducible, observed on identical inputs)
            obj[["ftol", "xtol"][int(rng.integers(2))]] = float(
                10 ** rng.uniform(-4, -1))
        o1 = copy.deepcopy(obj)
        case["edit"] = {"before": o0, "after": o1}
        compare(a, b, "after-edit-before-second-call")
        g.call("fit_model", a.fit_model, **{key: obj})
        g.call("fit_model", b.fit_model, **{key: copy.deepcopy(o1)})
        compare(a, b, "after-second-call")
        # "the change is noticed and results are recomputed": a third, fresh
        # curve that only ever sees the edited values, once
        c = gen.make_indentation(data, with_tip=False)
        c.apply_preprocessing(list(pipe))
        c.fit_model(model_key=mk, **dict(copy.deepcopy(kw),
                                         **{key: copy.deepcopy(o1)}))
        rec.event("twin states compared")
        d = c03.same(c03.snapshot(a), c03.snapshot(c))
        rec.check(d is None, "change-not-noticed/%s" % sc,
                  "after the in-place edit and second call '%s' differs from "
                  "a fresh curve fitted once with the edited values" % d,
                  case)
        rec.evaluated(dg=(sc, kw, o0, o1, spec))
    elif sc == "returned_model_defaults":
        # the parameter defaults a model hands out are the caller's: editing
        # them in place (and fitting with them) must not change what later
        # default-initialised fits or later callers get
        from nanite import model
        mk = spec["model"]
        md = model.models_available[mk]
        before = core.fp(md.get_parameter_defaults())
        a, b = twins()
        for t in (a, b):
            t.apply_preprocessing(list(pipe))
        p = md.get_parameter_defaults() if rng.random() < .5 \
            else model.get_init_parms(mk)
        geo = [n for n in p if n not in ("E", "contact_point", "baseline")
               and not p[n].vary]
        n_ = geo[int(rng.integers(len(geo)))] if geo else "E"
        p[n_].value = p[n_].value * float(rng.uniform(.3, .7))
        p["E"].value = p["E"].value * 2
        case["edit"] = {"parameter": n_, "value": p[n_].value}
        g.call("fit_model", a.fit_model, model_key=mk, params_initial=p)
        after = core.fp(md.get_parameter_defaults())
        rec.check(before == after,
                  "aliasing/model-defaults-shared-with-caller",
                  "get_parameter_defaults() of %s returns other values after "
                  "a caller edited the object it got earlier" % mk, case)
        b.fit_model(model_key=mk)
        pi = b.fit_properties["params_initial"]
        d0 = md.get_parameter_defaults()
        rec.event("twin states compared")
        rec.check(all(pi[k].value == d0[k].value for k in pi
                      if k != "contact_point") and before == after,
                  "history-dependence/default-fit-after-edited-defaults",
                  "a default-initialised fit starts from %r after another "
                  "caller edited the defaults it was handed"
                  % {k: pi[k].value for k in pi}, case)
        rec.evaluated(dg=(sc, mk, n_, spec))
    elif sc == "full_respec":
        # "the effect of a call depends only on the argument values at the
        # time of the call": a call that spells out every setting gives the
        # same result on a curve that was used before (with ONE setting
        # different) as on a curve that sees it for the first time
        a = twins()[0]
        c = twins()[0]
        for t in (a, c):
            t.apply_preprocessing(list(pipe))
        mk = spec["model"]
        p = copy.deepcopy(a.get_initial_fit_parameters(model_key=mk))
        p["E"].value = spec["params"]["E"] * float(rng.uniform(.6, 1.6))
        if "R" in p:
            p["R"].value = spec["params"]["R"]       # non-default geometry
        if rng.random() < .5:
            p["baseline"].vary = False
        if rng.random() < .6:
            # a contact point guess of the user's own (measured units)
            cpv = float(rng.uniform(-2e-7, 2e-7))
            p["contact_point"].set(value=cpv, min=cpv - 1e-6, max=cpv + 1e-6,
                                   vary=bool(rng.random() < .7))
        full = dict(model_key=mk, params_initial=p,
                    segment=int(rng.integers(2)), range_type="absolute",
                    range_x=[[0, 0], [-2e-6, 1e-6]][int(rng.integers(2))],
                    weight_cp=float(rng.choice([0, 5e-7])),
                    gcf_k=float(rng.choice([1.0, .5])), method="leastsq",
                    method_kws={}, x_axis="tip position", y_axis="force",
                    optimal_fit_edelta=False, optimal_fit_num_samples=9)
        other = {"segment": 1 - full["segment"],
                 "weight_cp": 2.5e-7,
                 # (an interval without data: the first call is unsuccessful)
                 "range_x": [[-1e-6, 5e-7], [1.0, 2.0]][int(rng.integers(2))],
                 "gcf_k": 2.0, "method": "nelder",
                 "model_key": "hertz_cone" if mk != "hertz_cone"
                 else "hertz_para",
                 "range_type": "relative cp"}
        keys = sorted(other) + ["range_x"]
        key = keys[int(rng.integers(len(keys)))]
        first = dict(copy.deepcopy(full), **{key: other[key]})
        if key == "model_key":
            first.pop("params_initial")
        case["settings"] = {k: v for k, v in full.items()
                            if k != "params_initial"}
        case["first_call_differs_in"] = key
        try:
            a.fit_model(**first)
        except BaseException:  # noqa
            pass
        if "params_initial" in first:
            # whatever became of that fit: the curve holds the initial
            # parameters it was given (values as passed)
            try:
                st = a.get_initial_fit_parameters()
                same_p = all(st[k].value == p[k].value and
                             st[k].min == p[k].min and st[k].max == p[k].max
                             and st[k].vary == p[k].vary for k in p)
            except BaseException:  # noqa
                same_p = True
            rec.check(same_p, "stored-parameters-differ-from-passed",
                      "after fit_model(params_initial=p, %s=%r) the curve "
                      "holds other initial parameters than p (success=%r)"
                      % (key, other[key], a.fit_properties.get("success")),
                      case)
        second = copy.deepcopy(full)
        if "params_initial" in first and rng.random() < .5:
            # the parameters were given with the first call (same values)
            second.pop("params_initial")
            case["second_call_without_params"] = True
        g.call("fit_model", a.fit_model, **second)
        c.fit_model(**copy.deepcopy(full))
        rec.event("twin states compared")
        d = c03.same(c03.snapshot(a), c03.snapshot(c))
        rec.check(d is None, "history-dependence/full_respec/" + key,
                  "a call that spells out every setting gives another '%s' "
                  "on a curve fitted before with a different %s than on a "
                  "fresh curve" % (d, key), case)
        rec.evaluated(dg=(sc, key, case["settings"], spec))
    elif sc in ("prep_list", "prep_options", "prep_list_via_fit",
                "prep_list_unpassed"):
        a, b = twins()
        steps = ["compute_tip_position", "correct_tip_offset"]
        opts = {"correct_tip_offset": {"method": "deviation_from_baseline"}}
        if sc == "prep_options":
            # (non-default values, so that withdrawing them changes the data)
            steps.append("correct_force_slope")
            opts = {"correct_tip_offset": {"method": "fit_constant_polynomial"},
                    "correct_force_slope": {"region": "approach",
                                            "strategy": "shift"}}
        if sc != "prep_options" and rng.random() < .5:
            # one dictionary with the options of all steps the user ever
            # uses; this request does not contain every one of them
            opts["correct_force_slope"] = {"region": "approach",
                                           "strategy": "shift"}
            opts["smooth_height"] = {}
            case["options for steps outside the request"] = True
        s0, o0 = copy.deepcopy(steps), copy.deepcopy(opts)
        if sc == "prep_list_via_fit":
            g.call("fit_model", a.fit_model, preprocessing=steps,
                   preprocessing_options=opts)
            g.call("fit_model", b.fit_model, preprocessing=copy.deepcopy(s0),
                   preprocessing_options=copy.deepcopy(o0))
        else:
            # (asking for the details of the steps is a way of calling, not
            #  a licence to write into the option dictionaries)
            rd = bool(rng.random() < .4)
            case["ret_details"] = rd
            g.call("apply_preprocessing", a.apply_preprocessing, steps, opts,
                   ret_details=rd)
            g.call("apply_preprocessing", b.apply_preprocessing,
                   copy.deepcopy(s0), copy.deepcopy(o0), ret_details=rd)
            rec.check(opts == o0 and steps == s0,
                      "argument-mutated/apply_preprocessing/values",
                      "apply_preprocessing(ret_details=%r) changed the "
                      "request %r/%r into %r/%r" % (rd, s0, o0, steps, opts),
                      case)
        compare(a, b, "after-first-call")
        # in place edit
        if sc == "prep_options":
            which = int(rng.integers(4))
            if which == 3:
                # all options withdrawn (an empty dictionary is a value)
                opts.clear()
            elif which == 0:
                opts["correct_tip_offset"]["method"] = "fit_constant_line"
            elif which == 1:
                opts["correct_force_slope"]["region"] = "all"
            else:
                opts["correct_force_slope"]["strategy"] = "drift"
        else:
            if rng.random() < .5:
                steps.append("correct_force_offset")
            else:
                steps.insert(1, "correct_force_offset")
        s1, o1 = copy.deepcopy(steps), copy.deepcopy(opts)
        case["edit"] = {"before": [s0, o0], "after": [s1, o1]}
        compare(a, b, "after-edit-before-second-call")
        if sc != "prep_list_unpassed":
            if sc == "prep_list_via_fit":
                g.call("fit_model", a.fit_model, preprocessing=steps,
                       preprocessing_options=opts)
                g.call("fit_model", b.fit_model,
                       preprocessing=copy.deepcopy(s1),
                       preprocessing_options=copy.deepcopy(o1))
            else:
                rd2 = bool(rng.random() < .4)
                g.call("apply_preprocessing", a.apply_preprocessing, steps,
                       opts, ret_details=rd2)
                g.call("apply_preprocessing", b.apply_preprocessing,
                       copy.deepcopy(s1), copy.deepcopy(o1), ret_details=rd2)
            compare(a, b, "after-second-call")
            c = gen.make_indentation(data, with_tip=False)
            c.apply_preprocessing(copy.deepcopy(s1), copy.deepcopy(o1))
            rec.event("twin states compared")
            rec.check(c06.columns_fp(a) == c06.columns_fp(c),
                      "change-not-noticed/%s" % sc,
                      "after the in-place edit and second request the "
                      "columns differ from a fresh curve given the edited "
                      "request once", case)
        else:
            # the edited list is not passed again: a fit must still use what
            # was requested at the time of the call
            g.call("fit_model", a.fit_model)
            g.call("fit_model", b.fit_model)
            compare(a, b, "after-fit-without-passing-edited-object")
        rec.evaluated(dg=(sc, s0, o0, s1, o1, spec))
    elif sc in ("returned_params", "returned_params_unpassed"):
        a, b = twins()
        kw = fit_settings(rng)
        case["settings"] = kw
        failed_first = bool(rng.random() < .3)
        if failed_first:
            # the first fit is unsuccessful (three points for three free
            # parameters): results absent, settings and hash present
            kw = {"segment": kw["segment"], "weight_cp": kw["weight_cp"]}
            case["settings"] = dict(kw, first_fit="unsuccessful")
        for t in (a, b):
            t.apply_preprocessing(list(pipe))
            if failed_first:
                xs_ = np.sort(np.asarray(t["tip position"])[
                    np.asarray(t["segment"]) == kw["segment"]])
                j_ = xs_.size // 3
                kw["range_x"] = [float(xs_[j_]), float(xs_[j_ + 2])]
            try:
                t.fit_model(model_key=spec["model"], **copy.deepcopy(kw))
            except BaseException:  # noqa
                pass
        compare(a, b, "after-first-call")
        pa = g.call("get_initial_fit_parameters",
                    a.get_initial_fit_parameters)
        pb = copy.deepcopy(g.call("get_initial_fit_parameters",
                                  b.get_initial_fit_parameters))
        rec.check(core.fp(pa) == core.fp(pb), "returned-params-differ",
                  "twins return different initial parameters", case)
        what = ["params_value", "params_vary", "params_minmax"][
            int(rng.integers(3))]
        r2 = np.random.default_rng(int(rng.integers(2 ** 31)))
        st = r2.bit_generator.state
        edit_params(r2, pa, what)
        r2.bit_generator.state = st
        edit_params(r2, pb, what)
        case["edit"] = {"what": what, "after": pa}
        if sc == "returned_params":
            g.call("fit_model", a.fit_model, params_initial=pa)
            g.call("fit_model", b.fit_model,
                   params_initial=copy.deepcopy(pb))
            compare(a, b, "after-second-call")
        else:
            # B never sees the edit at all: editing a returned object must
            # not change the library's state
            compare(a, b, "after-edit-before-second-call")
            g.call("fit_model", a.fit_model)
            g.call("fit_model", b.fit_model)
            compare(a, b, "after-fit-without-passing-edited-object")
            # and a second request hands out the stored values again
            pa2 = a.get_initial_fit_parameters()
            pb2 = b.get_initial_fit_parameters()
            rec.check(core.fp(pa2) == core.fp(pb2),
                      "aliasing/%s/handed-out-again" % sc,
                      "initial parameters handed out after the edit differ "
                      "between the twins", case)
        rec.evaluated(dg=(sc, what, kw, spec))
    elif sc == "handed_out_preproc_attrs":
        # objects handed out by the curve (idnt.preprocessing /
        # idnt.preprocessing_options) are edited in place and the pipeline
        # is requested again: the edit must be noticed and applied
        a = gen.make_indentation(data, with_tip=False)
        steps = ["compute_tip_position", "correct_tip_offset"]
        opts = {"correct_tip_offset": {"method": "deviation_from_baseline"}}
        g.call("apply_preprocessing", a.apply_preprocessing,
               copy.deepcopy(steps), copy.deepcopy(opts))
        which = int(rng.integers(3))
        if which == 0:
            a.preprocessing_options["correct_tip_offset"]["method"] = \
                "fit_constant_line"
        elif which == 1:
            a.preprocessing.insert(1, "correct_force_offset")
        else:
            a.preprocessing.append("correct_force_offset")
            a.preprocessing_options["correct_tip_offset"]["method"] = \
                "frechet_direct_path"
        s1 = copy.deepcopy(a.preprocessing)
        o1 = copy.deepcopy(a.preprocessing_options)
        case["edit"] = {"after": [s1, o1]}
        how = int(rng.integers(3))
        if how == 0:
            a.apply_preprocessing()            # "use what the curve holds"
        elif how == 1:
            a.apply_preprocessing(a.preprocessing, a.preprocessing_options)
        else:
            a.apply_preprocessing(copy.deepcopy(s1), copy.deepcopy(o1))
        c = gen.make_indentation(data, with_tip=False)
        c.apply_preprocessing(copy.deepcopy(s1), copy.deepcopy(o1))
        rec.event("twin states compared")
        rec.check(c06.columns_fp(a) == c06.columns_fp(c),
                  "change-not-noticed/%s" % sc,
                  "after editing the handed-out preprocessing objects in "
                  "place and requesting the pipeline again (variant %d), the "
                  "columns differ from a fresh curve given %r / %r once"
                  % (how, s1, o1), case)
        rec.evaluated(dg=(sc, which, how, spec))
    elif sc in ("rate_names_list", "rate_training_set_arrays"):
        # rate_quality(names=list, training_set=(X, y)): in-place edits of
        # these objects between two calls must be noticed
        from nanite.rate.rater import IndentationRater
        a, b = twins()
        for t in (a, b):
            t.apply_preprocessing(list(pipe))
            t.fit_model(model_key=spec["model"])

        def fresh():
            # a curve that never saw the first call (the twin b shares the
            # cache logic under observation)
            t = twins()[0]
            t.apply_preprocessing(list(pipe))
            t.fit_model(model_key=spec["model"])
            return t
        allc = IndentationRater.get_feature_names(which_type="continuous")
        names = [allc[i] for i in rng.permutation(len(allc))[:5]] \
            + ["feat_bin_size"]
        reg = ["Extra Trees", "Decision Tree"][int(rng.integers(2))]
        if sc == "rate_names_list":
            n0 = list(names)
            ra = g.call("rate_quality", a.rate_quality, regressor=reg,
                        names=names)
            rb = b.rate_quality(regressor=reg, names=list(n0))
            names.pop(int(rng.integers(3)))         # in-place edit
            n1 = list(names)
            ra2 = g.call("rate_quality", a.rate_quality, regressor=reg,
                         names=names)
            rb2 = b.rate_quality(regressor=reg, names=list(n1))
            rc2 = fresh().rate_quality(regressor=reg, names=list(n1))
            case["edit"] = {"before": n0, "after": n1}
        else:
            X, y = IndentationRater.load_training_set(names=names)
            X0, y0 = X.copy(), y.copy()
            ts = (X, y)
            ra = g.call("rate_quality", a.rate_quality, regressor=reg,
                        names=list(names), training_set=ts)
            rb = b.rate_quality(regressor=reg, names=list(names),
                                training_set=(X0.copy(), y0.copy()))
            y[:] = np.clip(10 - y, 0, 10)           # in-place edit
            ts1 = (X.copy(), y.copy())
            ra2 = g.call("rate_quality", a.rate_quality, regressor=reg,
                         names=list(names), training_set=ts)
            rb2 = b.rate_quality(regressor=reg, names=list(names),
                                 training_set=ts1)
            rc2 = fresh().rate_quality(regressor=reg, names=list(names),
                                       training_set=(ts1[0].copy(),
                                                     ts1[1].copy()))
            case["edit"] = "training responses reversed in place"
        rec.event("twin states compared", 2)
        rec.check(ra == rb, "aliasing/%s/after-first-call" % sc,
                  "ratings differ before any edit: %r vs %r" % (ra, rb), case)
        rec.check(ra2 == rb2, "aliasing/%s/after-second-call" % sc,
                  "after the in-place edit the twin re-using the object is "
                  "rated %r, the twin given fresh copies %r (first call %r)"
                  % (ra2, rb2, ra), case)
        rec.event("twin states compared")
        rec.check(ra2 == rc2 and rb2 == rc2,
                  "change-not-noticed/%s" % sc,
                  "after the edit the curve rated before gives %r (re-used "
                  "object) / %r (fresh copies), a curve rated for the first "
                  "time with the edited values gives %r" % (ra2, rb2, rc2),
                  case)
        rec.evaluated(dg=(sc, reg, names, spec))
    elif sc == "force_array":
        from nanite import poc
        force = np.array(data["force"], copy=True)
        f0 = force.copy()
        for m in poc.POC_METHODS:
            r1 = g.call("compute_poc", poc.compute_poc, force, m.identifier)
            r2 = poc.compute_poc(f0.copy(), m.identifier)
            rec.check(r1 == r2 and np.array_equal(force, f0),
                      "argument-mutated/compute_poc/force",
                      "%s: result %r vs %r on a copy; force modified: %s"
                      % (m.identifier, r1, r2,
                         not np.array_equal(force, f0)), case)
            # the details handed out belong to the caller: they must not
            # share memory with the force array that was passed in
            out = g.call("compute_poc", poc.compute_poc, force,
                         m.identifier, ret_details=True)
            det = out[1] if isinstance(out, tuple) else {}

            def arrays(o):
                if isinstance(o, np.ndarray):
                    yield o
                elif isinstance(o, dict):
                    for v in o.values():
                        yield from arrays(v)
                elif isinstance(o, (list, tuple)):
                    for v in o:
                        yield from arrays(v)
            shared = [a_ for a_ in arrays(det) if np.shares_memory(a_, force)]
            rec.event("details dictionaries checked for aliasing")
            rec.check(not shared,
                      "aliasing/compute_poc/details-share-memory-with-force",
                      "%s: %d array(s) of the returned details share memory "
                      "with the force argument" % (m.identifier, len(shared)),
                      case)
            for a_ in arrays(det):
                if a_.flags.writeable and a_.dtype.kind == "f":
                    a_ *= 1e9         # e.g. unit conversion for a plot
            rec.check(np.array_equal(force, f0),
                      "argument-mutated/compute_poc/force-via-details",
                      "%s: editing the returned details changed the force "
                      "argument" % m.identifier, case)
            force = f0.copy()
            clipped = poc.compute_preproc_clip_approach(force)
            c0 = clipped.copy()
            g.call("poc:" + m.identifier, m, clipped)
            rec.check(np.array_equal(clipped, c0),
                      "argument-mutated/poc-estimator/force",
                      "%s modified the array it was handed" % m.identifier,
                      case)
        rec.evaluated(dg=(sc, spec))
    elif sc == "rater_arrays":
        from nanite.rate import get_rater
        from nanite.rate.rater import IndentationRater
        # (somebody builds a rater with own regressor keywords first: the
        #  documented defaults must stay what they are - judged by the
        #  library-state comparison at the end of the shard and below)
        from nanite.rate.regressors import reg_dict
        from . import c09 as _c09
        rname = sorted(_c09.CUSTOM_KW)[int(rng.integers(len(_c09.CUSTOM_KW)))]
        d_before = core.fp_unordered(dict(reg_dict[rname][1]))
        try:
            get_rater(rname, training_set="zef18", **_c09.CUSTOM_KW[rname])
        except BaseException:  # noqa
            pass
        rec.check(core.fp_unordered(dict(reg_dict[rname][1])) == d_before,
                  "aliasing/regressor-defaults-updated-by-a-call",
                  "get_rater(%r, **keywords) changed the documented default "
                  "keywords of that regressor for every later caller"
                  % rname, case)
        names = IndentationRater.get_feature_names(which_type="continuous")
        X = rng.uniform(0, 1, (60, len(names)))
        y = rng.integers(0, 11, 60).astype(float)
        X0, y0 = X.copy(), y.copy()
        ts = (X, y)
        reg = ["Extra Trees", "Decision Tree", "SVR (linear kernel)"][
            int(rng.integers(3))]
        rater = g.call("get_rater", get_rater, reg, training_set=ts)
        rec.check(np.array_equal(X, X0) and np.array_equal(y, y0),
                  "argument-mutated/get_rater/training_set",
                  "training set arrays modified by get_rater", case)
        if not isinstance(rater, str):
            s = rng.uniform(0, 1, (3, len(rater.names)))
            s0 = s.copy()
            r1 = g.call("rate", rater.rate, samples=s)
            X[:] = 0   # editing the training set afterwards changes nothing
            r2 = rater.rate(samples=s0.copy())
            rec.check(np.array_equal(s, s0) and np.array_equal(
                np.asarray(r1), np.asarray(r2)),
                "aliasing/rater/training-set-edit-changes-rating",
                "ratings %r vs %r after editing the training arrays"
                % (r1, r2), case)
        rec.evaluated(dg=(sc, reg, X0))
    else:   # model_args
        from nanite import model
        mk = spec["model"]
        md = model.models_available[mk]
        p = gen.nanite_params(mk, dict(spec["params"],
                                       contact_point=spec["cp"],
                                       baseline=spec["baseline"]))
        x = np.array(data["tip position"][:spec["n"]], copy=True)
        f = np.array(data["force"][:spec["n"]], copy=True)
        if rng.random() < .5:
            x, f = x[::-1].copy(), f[::-1].copy()
        g.call("model", md.model, p, x)
        g.call("residual", md.residual, p, x, f, 5e-7)
        rec.evaluated(dg=(sc, spec))
    rec.sample(case, limit=3)


def _run_shard(rec, tier, seed, shard, nshards):
    for i in range(N_CASES[tier]):
        scenario(rec, core.case_rng(seed, ID, shard, i), [shard, i])


def replay(rec, case):
    cid = case["case"]["id"]
    scenario(rec, core.case_rng(case["seed"], ID, cid[0], cid[1]), cid)


def run_shard(rec, tier, seed, shard, nshards):
    state0 = core.library_state()
    try:
        _run_shard(rec, tier, seed, shard, nshards)
    finally:
        core.check_library_state(rec, state0, {"id": [shard, -1]})
