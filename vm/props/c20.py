"""C20 - loading yields one object per recorded curve; maps put values at
their pixel."""
import pathlib
import shutil
import tempfile
import warnings

import numpy as np

from .. import core, gen, fitlab

ID = "C20"
LEVEL = "exploration"
ANCHORS = [("read.py", "load_data"),
           ("read.py", "get_load_data_modality_kwargs"),
           ("group.py", "load_group"),
           ("group.py", "IndentationGroup.append"),
           ("qmap.py", "QMap.feat_fit_contact_point"),
           ("qmap.py", "QMap.feat_fit_youngs_modulus"),
           ("qmap.py", "QMap.feat_meta_rating")]
MIN_EVALS = {"quick": 400, "thorough": 8000}
MIN_EVENTS = {"files / folders loaded": 60, "maps judged": 60,
              "map pixels compared": 600,
              "curves refused by a group": 30,
              "progress callbacks observed": 200}
TIMEOUT = {"quick": 1200, "thorough": 3500}
N_CASES = {"quick": 3, "thorough": 60}     # per shard
RULE = ("cases: synthetic HDF5 files (single curves, folders of several "
        "files, maps of shape 1x1..5x4 written in shuffled scan order with a "
        "known modulus per pixel), the recorded single curves and the five "
        "recorded maps, metadata overrides; random subsets of the map curves "
        "fitted / rated / refitted / re-preprocessed; distinct by digest of "
        "(file layout, loader, operation subset)")
ASSUMPTIONS = [
    "ground truth for files written by the harness: number of curves, "
    "order, grid index of each curve; for recorded files: afmformats' own "
    "group loader gives the reference count/order",
    "map pixel [iy, ix] is addressed by the curve's 'grid index' metadata",
    "a curve 'without spring constant' is an Indentation built without that "
    "metadata key and without a tip position column"]

MAPS = ["fmt-jpk-fd_map2x2_extracted.jpk-force-map",
        "fmt-jpk-fd_map1d_2016-11-07.jpk-force-map",
        "fmt-jpk-fd_map-data-reference-points.jpk-force-map",
        "fmt-jpk-fd_map0d_extracted.jpk-force-map",
        "fmt-jpk-fd_map_bad_2013-05-27_1.jpk-force-map"]


def shards(tier):
    return 16


def write_map(rng, path, nx, ny, missing=0):
    """map file in shuffled scan order; returns list of (enum, ix, iy, E)"""
    import h5py
    order = [(x, y) for y in range(ny) for x in range(nx)]
    order = [order[i] for i in rng.permutation(len(order))]
    if missing:
        order = order[:max(1, len(order) - missing)]
    truth = []
    with h5py.File(path, "w") as h5:
        for en, (ix, iy) in enumerate(order):
            E = float(1000 * (1 + ix + 10 * iy))
            data, _ = gen.make_arrays(
                rng, "hertz_para", {"E": E, "R": 1e-5, "nu": .5},
                cp=float(rng.uniform(-1e-7, 1e-7)), baseline=0.0,
                n_app=int(rng.choice([120, 650])), n_ret=120, noise=1e-12)
            idnt = gen.make_indentation(data, with_tip=True, path=str(path),
                                        enum=en)
            idnt._metadata.update({
                "grid center x": 0., "grid center y": 0.,
                "grid index x": ix, "grid index y": iy,
                "grid shape x": nx, "grid shape y": ny,
                "grid size x": nx * 1e-6, "grid size y": ny * 1e-6,
                "position x": (ix + .5 - nx / 2) * 1e-6,
                "position y": (iy + .5 - ny / 2) * 1e-6})
            idnt.export_data(h5, metadata=True, fmt="hdf5")
            truth.append((en, ix, iy, E))
    return truth


def write_plain(rng, path, n):
    import h5py
    with h5py.File(path, "w") as h5:
        for en in range(n):
            data, _ = gen.make_arrays(
                rng, "hertz_para", {"E": 2000., "R": 1e-5, "nu": .5},
                n_app=100, n_ret=100, noise=1e-12)
            idnt = gen.make_indentation(data, with_tip=bool(rng.integers(2)),
                                        path=str(path), enum=en)
            idnt.export_data(h5, metadata=True, fmt="hdf5")
    return n


def judge_callbacks(rec, cb, case, what):
    rec.event("progress callbacks observed", len(cb))
    ok = len(cb) > 0 and all(0 <= v <= 1 for v in cb) and \
        all(b >= a for a, b in zip(cb, cb[1:])) and cb[-1] == 1
    rec.check(ok, "callbacks/" + what,
              "progress values %s" % ([round(float(v), 4) for v in cb][:12],),
              case)


def loading_case(rec, rng, cid, scratch):
    import nanite.read as nread
    # documented option of nanite.read: DEFAULT_MODALITY = None lifts the
    # restriction to force-distance data; loaded curves stay Indentations
    mod0 = nread.DEFAULT_MODALITY
    if rng.random() < .25:
        nread.DEFAULT_MODALITY = None
        rec.event("loading cases with DEFAULT_MODALITY = None")
    try:
        _loading_case(rec, rng, cid, scratch)
    finally:
        nread.DEFAULT_MODALITY = mod0


def _loading_case(rec, rng, cid, scratch):
    from nanite import IndentationGroup, load_group
    from nanite.indent import Indentation
    from nanite.read import load_data
    import afmformats
    d = scratch / ("fold_%d_%d" % tuple(cid))
    d.mkdir()
    layout = {}
    for j in range(int(rng.integers(1, 4))):
        sub = d / "sub" if j == 2 else d
        sub.mkdir(exist_ok=True)
        f = sub / ("file_%d.h5" % j)
        layout[str(f)] = write_plain(rng, f, int(rng.integers(1, 5)))
    if rng.random() < .5:
        recs = gen.recorded_single_curves()
        recf = recs[int(rng.integers(len(recs)))]
        shutil.copy(recf, d / recf.name)
        layout[str(d / recf.name)] = 1
    if rng.random() < .5:
        # multi-curve recorded maps (their reader reports intermediate
        # progress for every curve, unlike the HDF5 reader)
        from nanite import IndentationGroup as _IG
        for mname in [MAPS[i] for i in rng.permutation(2)[:int(
                rng.integers(1, 3))]]:
            shutil.copy(gen.DATA / mname, d / mname)
            layout[str(d / mname)] = len(_IG(d / mname))
    case = {"id": cid, "kind": "loading",
            "layout": {pathlib.Path(k).name: v for k, v in layout.items()}}
    # ---- single files through IndentationGroup
    for f, n in layout.items():
        cb = []
        grp = IndentationGroup(f, callback=cb.append)
        rec.event("files / folders loaded")
        rec.evaluated(dg=("file", pathlib.Path(f).name, n, cid))
        rec.check(len(grp) == n and all(isinstance(i, Indentation)
                                        for i in grp),
                  "loading/count-or-class",
                  "%s: %d objects for %d curves" % (pathlib.Path(f).name,
                                                    len(grp), n), case)
        rec.check([i.enum for i in grp] == list(range(n)),
                  "loading/enum-order",
                  "enumerations %s" % [i.enum for i in grp], case)
        judge_callbacks(rec, cb, case, "group")
    # ---- folder through load_group / load_data
    order = [str(p) for p in afmformats.find_data(
        d, modality="force-distance")]
    rec.check(sorted(order) == sorted(layout), "loading/files-found",
              "found %s" % [pathlib.Path(o).name for o in order], case)
    want = [(pathlib.Path(p).name, e) for p in order
            for e in range(layout.get(p, 0))]
    seen = set()
    keep = []
    for name, loader in [("load_group", load_group), ("load_data", load_data),
                         ("load_group", load_group)]:
        cb = []
        got = loader(d, callback=cb.append)
        # (every load hands out objects of its own)
        again = [(pathlib.Path(i.path).name, i.enum) for i in got
                 if id(i) in seen]
        rec.check(not again, "reload/not-fresh",
                  "%s of a folder loaded before returns the objects of the "
                  "earlier load: %s" % (name, again[:6]), case)
        seen |= {id(i) for i in got}
        keep.append(got)
        rec.event("files / folders loaded")
        rec.evaluated(dg=("folder", name, want, cid))
        have = [(pathlib.Path(i.path).name, i.enum) for i in got]
        rec.check(have == want and all(isinstance(i, Indentation)
                                       for i in got),
                  "loading/folder-order/" + name,
                  "%s returned %s, expected %s" % (name, have, want), case)
        judge_callbacks(rec, cb, case, name)
    # ---- the listing of (file, enumeration) pairs names the curves that
    # loading yields, in that order
    from nanite.read import get_data_paths_enum
    try:
        listing = get_data_paths_enum(d)
    except BaseException as e:  # noqa
        rec.violation("listing/raises/" + type(e).__name__,
                      "get_data_paths_enum raised %s" % str(e)[:80], case)
    else:
        got = load_data(d)
        rec.event("path / enumeration listings compared with loaded curves")
        rec.check([(str(a), int(b)) for a, b in listing] ==
                  [(str(i.path), int(i.enum)) for i in got],
                  "listing/not-the-loaded-curves",
                  "get_data_paths_enum lists %s, loading yields %s"
                  % ([(pathlib.Path(a).name, int(b)) for a, b in listing][:14],
                     [(pathlib.Path(i.path).name, int(i.enum))
                      for i in got][:14]), case)
    if rng.random() < .35:
        # a file with more than ten curves: the base library enumerates
        # them "0, 1, 10, 11, 2, ..." (position != enumeration)
        big = scratch / ("big_%d_%d.h5" % tuple(cid))
        write_plain(rng, big, int(rng.integers(11, 14)))
        try:
            listing = get_data_paths_enum(big)
            gotb = load_data(big)
        except BaseException as e:  # noqa
            rec.violation("listing/raises/" + type(e).__name__,
                          "listing / loading a file with more than ten "
                          "curves raised %s" % str(e)[:80], case)
        else:
            rec.event("path / enumeration listings compared with loaded "
                      "curves")
            rec.check([(str(a), int(b)) for a, b in listing] ==
                      [(str(i.path), int(i.enum)) for i in gotb] and
                      len({int(i.enum) for i in gotb}) == len(gotb),
                      "listing/not-the-loaded-curves",
                      "get_data_paths_enum lists enumerations %s, loading "
                      "yields %s" % ([int(b) for a, b in listing],
                                     [int(i.enum) for i in gotb]), case)
    # ---- the same folder addressed in other ways: relative to the working
    # directory (with ".."), through a symbolic link below a hidden
    # directory, with a trailing "." component
    import os
    names_want = [w for w in want]
    sib = scratch / ("cwd_%d_%d" % tuple(cid))
    sib.mkdir()
    hid = scratch / (".cfg_%d_%d" % tuple(cid)) / "share"
    hid.mkdir(parents=True)
    try:
        os.symlink(d, hid / "linked")
        linked = hid / "linked"
    except OSError:
        linked = None
    old_cwd = os.getcwd()
    try:
        os.chdir(sib)
        routes = [("relative path with '..'",
                   pathlib.Path("..") / d.name),
                  ("path with a '.' component", d / ".")]
        if linked is not None:
            routes.append(("folder below a hidden directory", linked))
        for rname, rpath in routes:
            for name, loader in [("load_group", load_group),
                                 ("load_data", load_data)]:
                cb = []
                try:
                    got = loader(rpath, callback=cb.append)
                except BaseException as e:  # noqa
                    rec.violation("loading/route-raises/" + name,
                                  "%s(%s) raised %s: %s"
                                  % (name, rname, type(e).__name__,
                                     str(e)[:80]), dict(case, route=rname))
                    continue
                rec.event("folders loaded through relative / hidden / "
                          "dotted paths")
                have = sorted((pathlib.Path(i.path).name, i.enum)
                              for i in got)
                rec.check(have == sorted(names_want),
                          "loading/depends-on-how-the-folder-is-addressed",
                          "%s through a %s returned %d curves %s, expected "
                          "%d" % (name, rname, len(have), have[:4],
                                  len(names_want)), dict(case, route=rname))
                judge_callbacks(rec, cb, case, name + " " + rname)
    finally:
        os.chdir(old_cwd)
    # ---- metadata override reaches the loaded objects
    k_over = float(rng.uniform(.01, .5))
    f0 = sorted(layout)[0]
    # (afmformats implements overrides for the JPK format, not for HDF5)
    fj = str(gen.recorded_single_curves()[0])
    for name, fn in [
            ("IndentationGroup", lambda: IndentationGroup(
                fj, meta_override={"spring constant": k_over})),
            ("load_group", lambda: load_group(
                fj, meta_override={"spring constant": k_over}))]:
        g = fn()
        rec.evaluated(dg=("override", name, k_over))
        rec.check(all(i.metadata["spring constant"] == k_over for i in g),
                  "meta-override/ignored/" + name,
                  "%s: spring constants %s, override %r"
                  % (name, [i.metadata["spring constant"] for i in g],
                     k_over), case)
    # ---- a group refuses a curve with neither spring constant nor tip
    from afmformats.errors import MissingMetaDataError
    grp = IndentationGroup(f0)
    n0 = len(grp)
    data, _ = gen.make_arrays(rng, "hertz_para", {"E": 2000., "R": 1e-5,
                                                  "nu": .5}, n_app=50,
                              n_ret=50)
    for has_k, has_tip in [(False, False), (True, False), (False, True),
                           (False, False)]:
        dd = {k: v.copy() for k, v in data.items()}
        if not has_tip:
            dd.pop("tip position")
            if rng.random() < .5:
                # not even a measured height (e.g. only the piezo height)
                dd["height (piezo)"] = dd.pop("height (measured)")
        # (sometimes the curve claims to come from the same file as the
        #  curve appended last)
        same_file = bool(rng.integers(2))
        meta = {"path": pathlib.Path(grp[-1].path) if same_file
                else pathlib.Path("x.h5"), "enum": 99,
                "imaging mode": "force-distance",
                "point count": dd["force"].size}
        if has_k:
            meta["spring constant"] = .05
        cur = Indentation(data=dd, metadata=meta)
        before = [id(i) for i in grp]
        try:
            grp.append(cur)
            res = "accepted"
        except MissingMetaDataError:
            res = "refused"
        except BaseException as e:  # noqa
            res = "EXC:" + type(e).__name__
        rec.evaluated(dg=("append", has_k, has_tip))
        if not has_k and not has_tip:
            rec.event("curves refused by a group")
            rec.check(res == "refused" and [id(i) for i in grp] == before,
                      "group/accepts-curve-without-spring-constant",
                      "append -> %s, group size %d -> %d" % (res, n0,
                                                            len(grp)), case)
        else:
            rec.check(res == "accepted" and len(grp) == len(before) + 1,
                      "group/refuses-valid-curve",
                      "append(spring constant %s, tip position %s) -> %s"
                      % (has_k, has_tip, res), case)
    rec.sample(case, limit=1)
    shutil.rmtree(d)


def expected_map(qm, kind, ny, nx):
    exp = np.full((ny, nx), np.nan)
    for idnt in qm.group:
        ix, iy = idnt.metadata["grid index x"], idnt.metadata["grid index y"]
        fp = idnt.fit_properties
        if kind == "E":
            if fp.get("success") and "E" in fp["params_fitted"]:
                exp[iy, ix] = fp["params_fitted"]["E"].value
        elif kind == "cp":
            if fp.get("success"):
                exp[iy, ix] = fp["params_fitted"]["contact_point"].value * 1e9
        else:
            if idnt._rating is not None:
                exp[iy, ix] = idnt._rating[-1]
    return exp


def judge_maps(rec, qm, nx, ny, case, stage):
    for feat, kind in [("fit: Young's modulus", "E"),
                       ("fit: contact point", "cp"), ("fit: rating", "rt")]:
        exp = expected_map(qm, kind, ny, nx)
        with warnings.catch_warnings(record=True) as w:
            warnings.simplefilter("always")
            try:
                m = qm.get_qmap(feat, qmap_only=True)
            except BaseException as e:  # noqa
                rec.violation("map/raises/" + type(e).__name__,
                              "get_qmap(%r) raised %s" % (feat, str(e)[:80]),
                              dict(case, stage=stage))
                continue
        rec.event("maps judged")
        rec.event("map pixels compared", int(exp.size))
        rec.evaluated(dg=(case.get("layout"), stage, feat, core.fp(exp)))
        rec.check(m.shape == exp.shape and np.array_equal(m, exp,
                                                          equal_nan=True),
                  "map/pixel-values/" + kind,
                  lambda: "map for %r after '%s':\n%s\nexpected (each curve's "
                  "current value at its grid index, NaN elsewhere):\n%s"
                  % (feat, stage, m, exp), dict(case, stage=stage))
        nmissing = sum(1 for i in qm.group if (
            (kind in ("E", "cp") and not i.fit_properties.get("success"))
            or (kind == "rt" and i._rating is None)))
        from nanite.qmap import DataMissingWarning
        nwarn = sum(1 for x in w if issubclass(x.category,
                                               DataMissingWarning))
        rec.check((nwarn > 0) == (nmissing > 0) and nwarn >= nmissing,
                  "map/missing-data-warning",
                  "%d curves without value, %d DataMissingWarnings"
                  % (nmissing, nwarn), dict(case, stage=stage))


def map_case(rec, rng, cid, scratch):
    from nanite import IndentationGroup, QMap
    recorded = rng.random() < .25
    if recorded:
        path = gen.DATA / MAPS[int(rng.integers(len(MAPS)))]
        truth = None
    else:
        nx, ny = int(rng.integers(1, 6)), int(rng.integers(1, 5))
        path = scratch / ("map_%d_%d.h5" % tuple(cid))
        truth = write_map(rng, path, nx, ny,
                          missing=int(rng.choice([0, 0, 1, 2])))
    case = {"id": cid, "kind": "map",
            "layout": pathlib.Path(path).name if recorded else
            {"shape": [nx, ny], "scan_order": [(t[1], t[2]) for t in truth]}}
    cb = []
    from nanite import load_group
    how = int(rng.integers(3))
    if how == 0:
        qm = QMap(path, callback=cb.append)
        judge_callbacks(rec, cb, case, "qmap")
    elif how == 1:
        qm = QMap(IndentationGroup(path))
    else:
        qm = QMap(load_group(path, callback=cb.append))
        judge_callbacks(rec, cb, case, "load_group")
    nxs, nys = int(qm.shape[0]), int(qm.shape[1])
    if truth is not None:
        # file order = the order in which the base library (afmformats)
        # enumerates the file (HDF5 groups iterate alphabetically: 0,1,10,2)
        import afmformats
        ref_order = [d.enum for d in afmformats.load_data(path)]
        by_enum = {t[0]: t for t in truth}
        rec.check(len(qm.group) == len(truth) and (nxs, nys) == (nx, ny) and
                  [(i.enum, i.metadata["grid index x"],
                    i.metadata["grid index y"]) for i in qm.group]
                  == [by_enum[e][:3] for e in ref_order], "map/loading",
                  "map group differs from what was written", case)
    if recorded and rng.random() < .7:
        # metadata override through QMap(path, ...) (JPK format)
        k_over = float(rng.uniform(.01, .5))
        qo = QMap(path, meta_override={"spring constant": k_over})
        rec.evaluated(dg=("override-qmap", k_over))
        rec.check(all(i.metadata["spring constant"] == k_over
                      for i in qo.group), "meta-override/ignored/QMap",
                  "QMap(path, meta_override=...) yields spring constants %s, "
                  "override %r" % (sorted({i.metadata["spring constant"]
                                           for i in qo.group}), k_over), case)
    judge_maps(rec, qm, nxs, nys, case, "nothing fitted")
    curves = list(qm.group)
    pipe = ["compute_tip_position", "correct_force_offset",
            "correct_tip_offset"]
    ops = []
    for rnd in range(3):
        sub = [i for i in rng.permutation(len(curves))
               [:int(rng.integers(1, len(curves) + 1))]]
        for j in sub:
            idnt = curves[int(j)]
            op = ["fit", "fit", "fit+rate", "refit-other", "reprocess",
                  "rate", "failing-multi-pass-fit"][int(rng.integers(7))]
            try:
                if op in ("fit", "fit+rate"):
                    if recorded:
                        idnt.apply_preprocessing(pipe)
                    idnt.fit_model(model_key="hertz_para",
                                   range_type="absolute", range_x=[0, 0])
                    if op == "fit+rate":
                        idnt.rate_quality()
                elif op == "refit-other":
                    if recorded:
                        idnt.apply_preprocessing(pipe)
                    # (other model, other weighting, and a geometrical
                    #  correction factor: the reported contact point stays
                    #  in measured units)
                    idnt.fit_model(model_key="hertz_cone",
                                   range_type="absolute", range_x=[0, 0],
                                   weight_cp=float(rng.choice([0, 3e-7])),
                                   gcf_k=float(rng.choice([1.0, .5, 2.0])))
                elif op == "failing-multi-pass-fit":
                    # first pass succeeds, later passes select no points:
                    # the current fit is unsuccessful
                    if recorded:
                        idnt.apply_preprocessing(pipe)
                    idnt.fit_model(model_key="hertz_para",
                                   range_type="relative cp",
                                   range_x=(40e-6, 50e-6))
                elif op == "reprocess":
                    idnt.apply_preprocessing(
                        ["compute_tip_position", "correct_tip_offset"])
                else:
                    idnt.rate_quality()
            except BaseException as e:  # noqa
                op += ":EXC:" + type(e).__name__
            ops.append([int(j), op])
        judge_maps(rec, qm, nxs, nys, dict(case, ops=list(ops)),
                   "round %d" % rnd)
    if truth is not None:
        # fitted moduli of a synthetic map carry the pixel they were
        # written for (ground truth: E = 1000 (1 + ix + 10 iy))
        # (started near the written modulus: the default start of 3 kPa
        #  once ended in a local minimum 21 % off - 1 pixel in ~4000 - which
        #  says nothing about the placement of values)
        e_of = {en: E for en, ix, iy, E in truth}
        for idnt in curves:
            p0 = gen.nanite_params("hertz_para")
            p0["E"].value = .7 * e_of.get(idnt.enum, p0["E"].value)
            idnt.fit_model(model_key="hertz_para", weight_cp=0,
                           params_initial=p0, gcf_k=1.0,
                           range_type="absolute", range_x=[0, 0])
        m = qm.get_qmap("fit: Young's modulus", qmap_only=True)
        exp = np.full((nys, nxs), np.nan)
        for en, ix, iy, E in truth:
            exp[iy, ix] = E
        with np.errstate(invalid="ignore"):
            ok = np.array_equal(np.isnan(m), np.isnan(exp)) and \
                np.nanmax(np.abs(m / exp - 1)) < .05
        rec.event("maps judged against written ground truth")
        rec.check(ok, "map/ground-truth",
                  lambda: "fitted modulus map\n%s\nwritten moduli\n%s"
                  % (m, exp), case)
    # the file is loaded once more in this process: one NEW object per
    # recorded curve, nothing fitted or rated on it
    cb2 = []
    loader = [lambda: load_group(path, callback=cb2.append),
              lambda: IndentationGroup(path, callback=cb2.append),
              lambda: QMap(path, callback=cb2.append).group][
        how if rng.random() < .6 else int(rng.integers(3))]
    try:
        grp2 = loader()
    except BaseException as e:  # noqa
        rec.violation("reload/raises/" + type(e).__name__,
                      "loading the file a second time raised %s"
                      % str(e)[:80], case)
        return
    judge_callbacks(rec, cb2, case, "second load")
    old_ids = {id(i) for i in curves}
    rec.event("second loads of a file in the same process")
    rec.evaluated(dg=("reload", case.get("layout"), how))
    rec.check(len(grp2) == len(curves) and
              [i.enum for i in grp2] == [i.enum for i in curves],
              "reload/other-curves",
              "second load yields enums %s, first %s"
              % ([i.enum for i in grp2][:12], [i.enum for i in curves][:12]),
              case)
    shared = [i.enum for i in grp2 if id(i) in old_ids]
    used = [i.enum for i in grp2 if id(i) not in old_ids and (
        "params_fitted" in i.fit_properties or i._rating is not None or
        i.preprocessing or "fit" in list(i.columns))]
    rec.check(not shared and not used, "reload/not-fresh",
              "second load of the file returns curves of the first load "
              "(enums %s) / curves that carry fits, ratings or preprocessing "
              "(enums %s)" % (shared[:8], used[:8]), dict(case, ops=ops[:8]))
    qm2 = QMap(grp2)
    for feat in ("fit: Young's modulus", "fit: rating"):
        with warnings.catch_warnings():
            warnings.simplefilter("ignore")
            try:
                m2 = qm2.get_qmap(feat, qmap_only=True)
            except BaseException:  # noqa
                continue
        rec.check(bool(np.all(np.isnan(m2))), "reload/map-not-empty",
                  lambda: "map %r of a freshly loaded group (nothing fitted) "
                  "holds values:\n%s" % (feat, m2), dict(case, ops=ops[:8]))
    rec.sample(dict(case, ops=ops[:8]), limit=1)


def run_shard(rec, tier, seed, shard, nshards):
    scratch = pathlib.Path(tempfile.mkdtemp(prefix="nv_c20_"))
    try:
        for i in range(N_CASES[tier]):
            rng = core.case_rng(seed, ID, shard, i)
            loading_case(rec, rng, [shard, i], scratch)
            map_case(rec, rng, [shard, i], scratch)
    finally:
        shutil.rmtree(scratch, ignore_errors=True)


def replay(rec, case):
    cid = case["case"]["id"]
    scratch = pathlib.Path(tempfile.mkdtemp(prefix="nv_c20_"))
    try:
        rng = core.case_rng(case["seed"], ID, cid[0], cid[1])
        loading_case(rec, rng, cid, scratch)
        map_case(rec, rng, cid, scratch)
    finally:
        shutil.rmtree(scratch, ignore_errors=True)
