"""C19 - the CLI profile persists what was entered and every producible
profile can be fitted."""
import builtins
import contextlib
import io
import json
import pathlib
import shutil
import sys
import tempfile

import numpy as np

from .. import core, gen
from . import c06, c14, c16

ID = "C19"
LEVEL = "exploration"
ANCHORS = [("cli/profile.py", "Profile.__getitem__"),
           ("cli/profile.py", "Profile.__setitem__"),
           ("cli/profile.py", "Profile.load"),
           ("cli/profile.py", "Profile.load_legacy"),
           ("cli/profile.py", "Profile.save"),
           ("cli/profile.py", "Profile.get_fit_params"),
           ("cli/profile.py", "setup_profile"),
           ("cli/rating.py", "fit_data"),
           ("cli/rating.py", "fit_perform")]
MIN_EVALS = {"quick": 1500, "thorough": 20000}
MIN_EVENTS = {"set/get round trips through new Profile objects": 800,
              "legacy profiles compared with their JSON form": 100,
              "setup prompts judged": 400,
              "batch fits run": 4, "statistics rows compared": 8}
TIMEOUT = {"quick": 1500, "thorough": 3500}
N_PROF = {"quick": 12, "thorough": 250}      # random profiles per shard
N_SESS = {"quick": 3, "thorough": 45}        # setup sessions per shard
N_BATCH = {"quick": 2, "thorough": 6}        # batch fits per shard (< 8)
RULE = ("cases: random profiles (every key x values of its domain) written "
        "key by key and read back through NEW Profile objects; the same "
        "profile rendered in the legacy key=value format; stored fit "
        "parameter entries vs get_fit_params; scripted interactive sessions "
        "(every prompt answered or skipped at random, observed through a "
        "replaced builtins.input); batch fit of a small folder (2 synthetic "
        "files + 1 recorded curve) with profiles produced by sessions; "
        "distinct by digest of (profile / answer script / folder)")
ASSUMPTIONS = [
    "preprocessing answers are restricted to orders that check_order accepts "
    "and that contain compute_tip_position (the setup does not validate "
    "orders); interval answers cover the data",
    "Profile's default path (bound at definition time) is redirected to a "
    "temporary file via Profile.__init__.__defaults__",
    "unit conversions um <-> m judged to 1e-12 relative"]


def shards(tier):
    return 16


def models():
    from nanite import model
    return sorted(model.models_available.keys())


def valid_pipeline(rng):
    from nanite import preproc
    req, opt = c14.rules()
    ids = sorted(req)
    while True:
        n = int(rng.integers(1, 6))
        sel = [ids[i] for i in rng.permutation(6)[:n]]
        for _ in range(2):
            for p in list(sel):
                for r in req[p]:
                    if r not in sel:
                        sel.append(r)
        # (own ordering: the generator does not rely on nanite's autosort)
        steps = c06.toposort(sel, req, opt)
        if "compute_tip_position" in steps and \
                "smooth_height" not in steps:
            return steps


def rnd_profile(rng):
    from nanite.rate import reg_names
    return {"model_key": models()[int(rng.integers(len(models())))],
            "preprocessing": valid_pipeline(rng),
            "preprocessing_options": [{}, {"correct_tip_offset": {
                "method": "fit_line_polynomial"}}][int(rng.integers(2))],
            "range_type": ["absolute", "relative cp"][int(rng.integers(2))],
            "range_x": [float(rng.uniform(-3e-6, 0)),
                        float(rng.uniform(0, 3e-6))]
            if rng.random() < .7 else [0.0, 0.0],
            "segment": int(rng.integers(2)),
            "weight_cp": float(rng.choice([0.0, 5e-7, 2e-6,
                                           rng.uniform(0, 3e-6)])),
            "rating regressor": reg_names[int(rng.integers(len(reg_names)))],
            "rating training set": "zef18"}


LEGACY_KEYS = ["model_key", "preprocessing", "range_type", "range_x",
               "segment", "weight_cp", "rating regressor",
               "rating training set"]


def profile_case(rec, rng, cid, scratch):
    from nanite.cli import profile
    from nanite import model
    d = rnd_profile(rng)
    # ---- legacy == JSON
    pj = scratch / ("j_%d_%d.cfg" % tuple(cid))
    pl = scratch / ("l_%d_%d.cfg" % tuple(cid))
    dj = {k: d[k] for k in LEGACY_KEYS}
    if rng.random() < .3:
        # user training set given as a path (any characters a path may hold)
        dj["rating training set"] = [
            "/data/k=0.05Nm/ts_mine", "/home/user/my sets/ts_a=b=c",
            "C:\\data\\ts_2021-01-29"][int(rng.integers(3))]
    if len(dj["preprocessing"]) < 2:
        dj["preprocessing"] = ["compute_tip_position", "correct_force_offset"]
    pj.write_text(json.dumps(dj))
    lines = []
    for k, v in dj.items():
        if isinstance(v, list):
            v = ",".join(str(x) for x in v)
        if k == "segment" and rng.random() < .5:
            v = ["approach", "retract"][dj["segment"]]
        lines.append("%s = %s" % (k, v))
    pl.write_text("\n".join(lines) + "\n")
    case = {"id": cid, "kind": "profile", "profile": d}
    try:
        a, b = profile.Profile(pj), profile.Profile(pl)
    except BaseException as e:  # noqa
        rec.evaluated(dg=("legacy-load", dj))
        rec.violation("legacy/load-raises/" + type(e).__name__,
                      "loading the profile (JSON / legacy form) raised %s: %s"
                      % (type(e).__name__, str(e)[:80]), case)
        return
    rec.event("legacy profiles compared with their JSON form")
    for k in dj:
        va, vb = a[k], b[k]
        rec.evaluated(dg=("legacy", k, dj[k]))
        rec.check(va == vb and va == dj[k], "legacy/differs-from-json/" + k,
                  "key %s: JSON %r, legacy %r, written %r"
                  % (k, va, vb, dj[k]), case)
    # ---- set / get round trip through new objects
    p = scratch / ("s_%d_%d.cfg" % tuple(cid))
    profile.Profile(p)
    d2 = rnd_profile(rng)
    dflt = model.get_init_parms(d2["model_key"])
    pnames = [n for n in dflt if dflt[n].expr is None]
    chosen = [pnames[i] for i in rng.permutation(len(pnames))[:2]]
    fitvals = {}
    for n in chosen:
        if rng.random() < .8:
            # (inside the parameter's bounds: lmfit clips otherwise)
            fitvals["fit param %s value" % n] = float(np.clip(
                dflt[n].value * rng.uniform(.5, 2) if dflt[n].value
                else rng.uniform(-1e-7, 1e-7), dflt[n].min, dflt[n].max))
        if rng.random() < .8:
            fitvals["fit param %s vary" % n] = bool(rng.integers(2))
    order = list(d2) + list(fitvals)
    allv = dict(d2, **fitvals)
    for k in [order[i] for i in rng.permutation(len(order))]:
        profile.Profile(p)[k] = allv[k]
        # interleave reads (write-through defaults must not clobber)
        profile.Profile(p)[list(d2)[int(rng.integers(len(d2)))]]
    for k, v in allv.items():
        rec.event("set/get round trips through new Profile objects")
        rec.evaluated(dg=("roundtrip", k, v))
        got = profile.Profile(p)[k] if k in profile.DEFAULTS \
            else profile.Profile(p).load().get(k)
        rec.check(got == v and type(got) is type(v),
                  "roundtrip/value-changed/" + k.split(" ")[0],
                  "key %r: wrote %r, a new Profile object returns %r"
                  % (k, v, got), case)
    # ---- two long-lived handles on the same file, interleaved
    ha, hb = profile.Profile(p), profile.Profile(p)
    keys = [k for k in d2 if k != "model_key"]
    for _ in range(4):
        k1, k2, k3 = [keys[i] for i in rng.permutation(len(keys))[:3]]
        d3 = rnd_profile(rng)
        ha[k1]                              # handle A reads
        hb[k2] = d3[k2]                     # handle B writes
        allv[k2] = d3[k2]
        ha[k3] = d3[k3]                     # handle A writes another key
        allv[k3] = d3[k3]
        for k, v in ((k2, d3[k2]), (k3, d3[k3])):
            rec.event("set/get round trips through new Profile objects")
            rec.event("interleaved writes through two live handles")
            rec.evaluated(dg=("two-handles", k, v))
            got = profile.Profile(p)[k]
            rec.check(got == v, "roundtrip/lost-update-with-two-handles/"
                      + k.split(" ")[0],
                      "key %r written as %r through one Profile object, "
                      "then another key written through a second live "
                      "object: a new object returns %r" % (k, v, got), case)
    # ---- fit parameters
    prm = profile.Profile(p).get_fit_params()
    rec.evaluated(dg=("fitparams", d2["model_key"], fitvals))
    rec.event("fit parameter sets judged")
    ok = list(prm.keys()) == list(dflt.keys())
    for n in dflt:
        ev = fitvals.get("fit param %s value" % n, dflt[n].value)
        evy = fitvals.get("fit param %s vary" % n, dflt[n].vary)
        if dflt[n].expr is None:
            ok &= (prm[n].value == ev and prm[n].vary == evy)
        ok &= (prm[n].min == dflt[n].min and prm[n].max == dflt[n].max)
    rec.check(ok, "fit-params/not-defaults-overridden-by-stored",
              lambda: "get_fit_params %s; defaults %s; stored %s"
              % ({n: (prm[n].value, prm[n].vary) for n in prm},
                 {n: (dflt[n].value, dflt[n].vary) for n in dflt}, fitvals),
              case)
    rec.sample(case, limit=1)
    for f in (pj, pl, p):
        f.unlink()


# ---------------------------------------------------------------------------
def run_setup(plan, cfg):
    """run setup_profile with a scripted input(); `plan(kind, prompt)` returns
    the answer ('' = skip).  -> (outcome, transcript)"""
    from nanite.cli import profile
    transcript = []
    state = {"paren": 0}

    def fake_input(prompt=""):
        if prompt.startswith("(currently"):
            state["paren"] += 1
            kind = {1: "preprocessing", 2: "model", 3: "range_type",
                    4: "regressor"}.get(state["paren"], "extra")
        elif prompt.startswith("- initial value for "):
            kind = "value:" + prompt[len("- initial value for "):].split(
                " ")[0].split("[")[0]
        elif prompt.startswith("  vary "):
            kind = "vary:" + prompt[len("  vary "):].split(" ")[0]
        elif prompt.startswith("left"):
            kind = "left"
        elif prompt.startswith("right"):
            kind = "right"
        elif prompt.startswith("size"):
            kind = "weight_cp"
        elif prompt.startswith("training set"):
            kind = "training_set"
        else:
            kind = "unknown"
        ans = plan(kind, prompt)
        transcript.append([kind, prompt, ans])
        if len(transcript) > 200:
            raise RuntimeError("setup does not terminate")
        return ans
    old_in, old_argv = builtins.input, sys.argv
    old_def = profile.Profile.__init__.__defaults__
    builtins.input = fake_input
    sys.argv = ["nanite-setup-profile"]
    profile.Profile.__init__.__defaults__ = (cfg, True)
    try:
        with contextlib.redirect_stdout(io.StringIO()):
            try:
                profile.setup_profile()
                out = "ok"
            except BaseException as e:  # noqa
                out = "EXC:%s:%s" % (type(e).__name__, str(e)[:80])
    finally:
        builtins.input, sys.argv = old_in, old_argv
        profile.Profile.__init__.__defaults__ = old_def
    return out, transcript


def session(rec, rng, cid, scratch, nsess=2):
    """several setup sessions on the same profile file"""
    from nanite.cli import profile
    from nanite import preproc
    from nanite.rate import reg_names
    cfg = scratch / ("setup_%d_%d.cfg" % tuple(cid))
    steps_reg = [pp.identifier for pp in preproc.PREPROCESSORS]
    mods = models()
    tsdir = scratch / "ts_copy"
    if not tsdir.exists():
        from nanite.rate.rater import IndentationRater as IR
        shutil.copytree(IR.get_training_set_path("zef18"), tsdir)
    scripts = []
    for s in range(nsess):
        p_answer = float(rng.choice([.25, .6, .9]))
        before = json.loads(cfg.read_text()) if cfg.exists() and \
            cfg.read_text().strip() else {}
        relative = [None]

        def plan(kind, prompt):
            if rng.random() > p_answer:
                return ""
            if kind == "preprocessing":
                pipe = valid_pipeline(rng)
                return ",".join(str(steps_reg.index(x) + 1) for x in pipe)
            if kind == "model":
                return str(int(rng.integers(len(mods))) + 1)
            if kind.startswith("value:"):
                cur = float(prompt.split("(currently '")[1].split("')")[0])
                v = cur * rng.uniform(.5, 2) if cur else \
                    rng.uniform(-1e-7, 1e-7)
                # stay inside the parameter's bounds (lmfit clips otherwise)
                pname = kind[6:]
                for mk_ in mods:
                    from nanite import model as _m
                    d_ = _m.get_init_parms(mk_)
                    if pname in d_:
                        v = float(np.clip(v, d_[pname].min, d_[pname].max))
                return repr(float(v))
            if kind.startswith("vary:"):
                return ["true", "false", "True", " FALSE "][
                    int(rng.integers(4))]
            if kind == "range_type":
                relative[0] = ["absolute", "relative"][int(rng.integers(2))]
                return relative[0]
            if kind == "left":
                return repr(float(-rng.uniform(1, 5)))
            if kind == "right":
                return repr(float(rng.uniform(.5, 5)))
            if kind == "weight_cp":
                return repr(float(rng.choice([0, .5, rng.uniform(0, 3)])))
            if kind == "training_set":
                # (a label, a directory, a directory below the home
                #  directory written with a tilde, a name that is neither)
                return ["zef18", str(tsdir), "zef18", str(tsdir),
                        "~/ts_copy", "no_such_set"][int(rng.integers(6))]
            if kind == "regressor":
                return str(int(rng.integers(len(reg_names))) + 1)
            return ""
        import os
        old_home = os.environ.get("HOME")
        os.environ["HOME"] = str(scratch)      # "~/ts_copy" exists there
        try:
            out, tr = run_setup(plan, cfg)
        finally:
            if old_home is None:
                os.environ.pop("HOME", None)
            else:
                os.environ["HOME"] = old_home
        scripts.append([[k, a] for k, _, a in tr])
        case = {"id": cid, "kind": "session", "scripts": scripts}
        rec.evaluated(dg=("session", scripts))
        if out != "ok":
            answered = [k for k, _, a in tr if a]
            mech = "interval-answer" if any(k in ("left", "right")
                                            for k in answered[-2:]) \
                else (answered[-1].split(":")[0] if answered else "none")
            rec.violation("setup-raises/%s/%s" % (mech, out.split(":")[1]),
                          "setup_profile raised %s after answers %s"
                          % (out, [[k, a] for k, _, a in tr if a][-4:]), case)
            continue
        after = json.loads(cfg.read_text())
        if after.get("rating training set") not in ("zef18", str(tsdir)):
            # whatever the setup stored has to be usable by the batch fit,
            # which hands it to the rater as it is
            from nanite.rate.rater import get_rater
            try:
                get_rater(after.get("rating regressor", "Extra Trees"),
                          training_set=after["rating training set"])
            except BaseException as e:  # noqa
                rec.violation("setup/stored-training-set-unusable/"
                              + type(e).__name__,
                              "the setup stored the training set %r, which "
                              "the rater cannot load (%s)"
                              % (after["rating training set"], str(e)[:80]),
                              case)
        model_key = after["model_key"]
        for it, (kind, prompt, ans) in enumerate(tr):
            if kind == "training_set" and it + 1 < len(tr) and \
                    tr[it + 1][0] == "training_set":
                # the answer was turned down and the question asked again:
                # legitimate for anything that is not a usable training set
                rec.event("training set answers turned down by the setup")
                rec.check(ans not in ("zef18", str(tsdir)),
                          "setup/usable-training-set-turned-down",
                          "the answer %r was turned down" % ans, case)
                continue
            rec.event("setup prompts judged")
            rec.evaluated(dg=("prompt", kind, ans, cid, s))
            judge_prompt(rec, kind, ans, before, after, steps_reg, mods,
                         reg_names, case)
        rec.sample({"script": scripts[-1], "profile": after}, limit=1)
    return cfg


def judge_prompt(rec, kind, ans, before, after, steps_reg, mods, reg_names,
                 case):
    from nanite.cli import profile

    def prev(key):
        return before.get(key, profile.DEFAULTS.get(key))

    def close(a, b):
        return abs(a - b) <= 1e-12 * max(abs(a), abs(b), 1e-300)
    if kind == "preprocessing":
        want = [steps_reg[int(i) - 1] for i in ans.split(",")] if ans \
            else prev("preprocessing")
        rec.check(after["preprocessing"] == want, "setup/preprocessing",
                  "answer %r -> stored %r, expected %r"
                  % (ans, after["preprocessing"], want), case)
    elif kind == "model":
        want = mods[int(ans) - 1] if ans else prev("model_key")
        rec.check(after["model_key"] == want, "setup/model",
                  "answer %r -> stored %r, expected %r"
                  % (ans, after["model_key"], want), case)
    elif kind.startswith("value:"):
        p = kind[6:]
        key = "fit param %s value" % p
        if ans:
            rec.check(key in after and after[key] == float(ans),
                      "setup/param-value",
                      "answer %r for %s -> stored %r" % (ans, p,
                                                         after.get(key)),
                      case)
        elif key in before and before.get("model_key") == after["model_key"]:
            rec.check(after.get(key) == before[key],
                      "setup/param-value-skipped-changed",
                      "skipped %s: %r -> %r" % (p, before[key],
                                                after.get(key)), case)
    elif kind.startswith("vary:"):
        p = kind[5:]
        key = "fit param %s vary" % p
        if ans:
            rec.check(after.get(key) is (ans.strip().lower() == "true"),
                      "setup/param-vary", "answer %r for %s -> stored %r"
                      % (ans, p, after.get(key)), case)
        elif key in before and before.get("model_key") == after["model_key"]:
            rec.check(after.get(key) == before[key],
                      "setup/param-vary-skipped-changed",
                      "skipped vary %s: %r -> %r" % (p, before[key],
                                                     after.get(key)), case)
    elif kind == "range_type":
        if ans:
            ok = after["range_type"] == ans or (
                ans == "relative" and after["range_type"] == "relative cp")
            rec.check(ok, "setup/range-type",
                      "answer %r -> stored %r" % (ans, after["range_type"]),
                      case)
        else:
            rec.check(after["range_type"] == prev("range_type"),
                      "setup/range-type-skipped-changed",
                      "skipped: %r -> %r" % (prev("range_type"),
                                             after["range_type"]), case)
    elif kind in ("left", "right"):
        j = 0 if kind == "left" else 1
        got = after["range_x"][j]
        want = float(ans) * 1e-6 if ans else prev("range_x")[j]
        rec.check(close(got, want), "setup/interval-%s-%s"
                  % (kind, "answered" if ans else "skipped"),
                  "%s bound: answer %r -> stored %r, expected %r"
                  % (kind, ans, got, want), case)
    elif kind == "weight_cp":
        want = float(ans) * 1e-6 if ans else prev("weight_cp")
        rec.check(close(after["weight_cp"], want), "setup/weight_cp",
                  "answer %r -> stored %r, expected %r"
                  % (ans, after["weight_cp"], want), case)
    elif kind == "training_set":
        want = ans if ans else prev("rating training set")
        rec.check(after["rating training set"] == want,
                  "setup/training-set", "answer %r -> stored %r"
                  % (ans, after["rating training set"]), case)
    elif kind == "regressor":
        want = reg_names[int(ans) - 1] if ans else prev("rating regressor")
        rec.check(after["rating regressor"] == want, "setup/regressor",
                  "answer %r -> stored %r" % (ans,
                                              after["rating regressor"]),
                  case)


# ---------------------------------------------------------------------------
def make_folder(rng, scratch, cid):
    d = scratch / ("data_%d_%d" % tuple(cid))
    d.mkdir()
    for j in range(2):
        c16.make_file(rng, d / ("synth_%d.h5" % j), int(rng.integers(1, 3)))
    rec = gen.recorded_single_curves()[0]
    shutil.copy(rec, d / rec.name)
    return d


def batch(rec, rng, cid, scratch, cfg):
    from nanite.cli import profile, rating
    from nanite import IndentationGroup
    import afmformats
    if json.loads(cfg.read_text()).get("model_key") == "sneddon_spher":
        # third-party iterative model (separate package): minutes per curve
        rec.event("batch fits skipped (third-party iterative model: cost)")
        return
    folder = make_folder(rng, scratch, cid)
    out = scratch / ("out_%d_%d" % tuple(cid))
    out.mkdir()
    prof = json.loads(cfg.read_text())
    case = {"id": cid, "kind": "batch", "profile": prof}
    # domain: the profile's interval must select enough points on every
    # curve of the folder (an interval that misses the data is the user's
    # error, stated in ASSUMPTIONS)
    pf0 = profile.Profile(cfg, create=False)
    try:
        for pp in afmformats.find_data(folder, modality="force-distance"):
            for idnt in IndentationGroup(pp):
                idnt.apply_preprocessing(pf0["preprocessing"],
                                         options=pf0["preprocessing_options"])
                idnt.fit_model(model_key=pf0["model_key"],
                               params_initial=pf0.get_fit_params(),
                               range_type="absolute" if pf0["range_type"]
                               == "absolute" else "relative cp",
                               range_x=pf0["range_x"],
                               segment=pf0["segment"],
                               weight_cp=pf0["weight_cp"])
                if not idnt.fit_properties.get("success"):
                    raise ValueError("unsuccessful")
    except BaseException:  # noqa
        rec.event("profiles whose settings do not fit every curve of the "
                  "folder (outside the domain, not judged)")
        shutil.rmtree(folder)
        return
    if rng.random() < .5:
        # the results directory holds the statistics of an earlier run
        (out / "statistics.tsv").write_text(
            "path\tenum\tE\trating\n"
            "/data/earlier/run/curve1.jpk-force\t0\t1234.5\t4.2\n"
            "/data/earlier/run/curve2.jpk-force\t0\t2345.6\t7.7\n")
        rec.event("batch fits into a results directory that holds the "
                  "statistics of an earlier run")
    rec.event("batch fits run")
    rec.evaluated(dg=("batch", prof))
    try:
        with contextlib.redirect_stdout(io.StringIO()):
            rating.fit_perform(folder, out, cfg)
    except BaseException as e:  # noqa
        from nanite import model
        md = model.models_available.get(prof.get("model_key"))
        if isinstance(e, KeyError) and md is not None and \
                "E" not in md.parameter_keys:
            key = "batch-fit/KeyError-E/model-without-E"
        elif prof.get("range_type") not in ("absolute", "relative cp"):
            key = "batch-fit/rejects-stored-range-type"
        else:
            key = "batch-fit/raises/" + type(e).__name__
        rec.violation(key, "fit_perform raised %s: %s for a profile produced "
                      "by the setup (model %s, range type %r)"
                      % (type(e).__name__, str(e)[:80],
                         prof.get("model_key"), prof.get("range_type")),
                      case)
        return
    lines = (out / "statistics.tsv").read_text().splitlines()
    rec.check(lines and lines[0].split("\t") == ["path", "enum", "E",
                                                 "rating"],
              "statistics/header", "header %r" % (lines[:1],), case)
    # expected rows: same settings, computed by the harness
    pf = profile.Profile(cfg, create=False)
    want = []
    for pp in afmformats.find_data(folder, modality="force-distance"):
        for idnt in IndentationGroup(pp):
            idnt.apply_preprocessing(pf["preprocessing"],
                                     options=pf["preprocessing_options"])
            idnt.fit_model(model_key=pf["model_key"],
                           params_initial=pf.get_fit_params(),
                           range_type=pf["range_type"],
                           range_x=pf["range_x"], segment=pf["segment"],
                           weight_cp=pf["weight_cp"])
            E = idnt.fit_properties["params_fitted"]["E"].value
            rt = round(idnt.rate_quality(
                training_set=pf["rating training set"],
                regressor=pf["rating regressor"]), ndigits=1)
            want.append([str(idnt.path), str(idnt.enum), str(E), str(rt)])
    rows = [ln.split("\t") for ln in lines[1:]]
    rec.check(len(rows) == len(want), "statistics/row-count",
              "%d rows for %d curves" % (len(rows), len(want)), case)
    for r, w in zip(rows, want):
        rec.event("statistics rows compared")
        rec.evaluated(dg=("row", w[0], w[1], prof))
        e_init = abs(pf.get_fit_params()["E"].value) or 1.0
        # (a modulus that ends on its lower bound 0 is not reproducible
        #  between two identical lmfit runs; both must then be ~0)
        same = r[:2] == w[:2] and r[3] == w[3] and (
            r[2] == w[2] or abs(float(r[2]) - float(w[2]))
            <= 1e-6 * abs(float(w[2])) or
            max(abs(float(r[2])), abs(float(w[2]))) <= 1e-3 * e_init)
        rec.check(same, "statistics/row-differs",
                  "row %r, expected %r" % (r, w), case)
    shutil.rmtree(folder)
    shutil.rmtree(out)


def run_shard(rec, tier, seed, shard, nshards):
    scratch = pathlib.Path(tempfile.mkdtemp(prefix="nv_c19_"))
    try:
        for i in range(N_PROF[tier]):
            profile_case(rec, core.case_rng(seed, ID, shard, i), [shard, i],
                         scratch)
        for i in range(N_SESS[tier]):
            cid = [shard, 10 ** 5 + i]
            rng = core.case_rng(seed, ID, cid[0], cid[1])
            cfg = session(rec, rng, cid, scratch)
            if shard < 8 and i < N_BATCH[tier] and cfg.exists():
                batch(rec, rng, cid, scratch, cfg)
    finally:
        shutil.rmtree(scratch, ignore_errors=True)


def replay(rec, case):
    cid = case["case"]["id"]
    scratch = pathlib.Path(tempfile.mkdtemp(prefix="nv_c19_"))
    try:
        rng = core.case_rng(case["seed"], ID, cid[0], cid[1])
        if case["case"].get("kind") == "profile":
            profile_case(rec, rng, cid, scratch)
        else:
            cfg = session(rec, rng, cid, scratch)
            if case["case"].get("kind") == "batch" and cfg.exists():
                batch(rec, rng, cid, scratch, cfg)
    finally:
        shutil.rmtree(scratch, ignore_errors=True)
