"""C01 - fitting recovers the parameters that generated the data."""
import numpy as np

from .. import core, gen, ref, fitlab

ID = "C01"
LEVEL = "exploration"
ANCHORS = [("fit.py", "IndentationFitter._fit"),
           ("fit.py", "IndentationFitter.fit"),
           ("fit.py", "guess_initial_parameters"),
           ("indent.py", "Indentation.fit_model"),
           ("indent.py", "Indentation.get_initial_fit_parameters")]
MIN_EVALS = {"quick": 1500, "thorough": 30000}
MIN_EVENTS = {"noise-free fits judged": 300, "noisy fits judged": 300}
TIMEOUT = {"quick": 900, "thorough": 3500}
N_CASES = {"quick": 170, "thorough": 15000}     # per shard
RULE = ("case = (model, parameter vector in bounds, contact point, baseline, "
        "points/segment, sampling law, segment, weight_cp, minimiser, SNR, "
        "initial guess inside the basin); distinct by digest of the curve "
        "spec and fit settings; non-trivial = optimiser ran")
ASSUMPTIONS = [
    "convergence basin as stated in DESIGN C01: initial modulus within "
    "10^+-0.5 of truth, initial contact point within +-min(0.2 um, 20% of "
    "the contact depth), baseline 0, weighting window <= 0.4 contact depth",
    "nelder judged for moduli >= 1 kPa only (scipy's absolute xatol=1e-4)",
    "noisy nelder fits that stop above twice the objective value of the "
    "generating parameters are counted, not judged (at most max(3, 1 %) per "
    "shard)",
    "minimisers leastsq and nelder only (scipy's absolute tolerances stop "
    "the others at once on SI-scaled data: not a nanite property)",
    "noise bound = c x Cramer-Rao sd from the reference formulas' Jacobian "
    "(c=10 weight_cp=0; c=25 weight_cp>0, SNR>=100, width<=1/4 depth); "
    "parameters with CRB > 2% are not judged under noise (counted)",
    "Clifford model: E_L and t held fixed (not jointly identifiable)"]

TOL = {"leastsq": 1e-8, "nelder": 1e-3}


def shards(tier):
    return 16


def crb(mk, full, varied, x, wcp, sigma):
    """Cramer-Rao standard deviations from a finite difference Jacobian of
    the reference formula; sandwich form for weighted least squares."""
    v0 = np.array([full[k] for k in varied], dtype=float)
    scale = np.array([abs(full[k]) if full[k] != 0 else 1.0
                      for k in varied])
    for j, k in enumerate(varied):
        if k == "contact_point":
            scale[j] = 1e-6
        elif k == "baseline":
            scale[j] = 1e-9

    def f(vals):
        q = dict(full)
        for k, v in zip(varied, vals):
            q[k] = v
        return ref.force(mk, x, q)
    J = []
    for j in range(len(varied)):
        h = 1e-6 * scale[j]
        vp, vm = v0.copy(), v0.copy()
        vp[j] += h
        vm[j] -= h
        J.append((f(vp) - f(vm)) / (2 * h))
    J = np.array(J).T
    w = ref.cp_weights(x, full["contact_point"], wcp)
    A = (J * w[:, None]) * scale
    try:
        inv = np.linalg.inv(A.T @ A)
    except np.linalg.LinAlgError:
        return np.full(len(varied), np.inf)
    cov = inv @ (A.T @ (A * (w ** 2)[:, None])) @ inv * sigma ** 2
    return np.sqrt(np.abs(np.diag(cov))) * scale


def one_case(rec, tap, rng, cid):
    spec = fitlab.draw_curve_spec(rng, noise_snr=(0, 0, 300, 100, 30))
    idnt, truth = fitlab.build_curve(spec)
    p0, ek = fitlab.initial_params(rng, spec, truth)
    method = ["leastsq", "nelder"][int(rng.integers(2))]
    seg = int(rng.integers(2))
    depth0 = spec["cp"] - spec["zmin"]
    wcp = float(rng.choice([0, 0, .05 * depth0, .15 * depth0, .35 * depth0,
                            2e-6]))
    guessed = bool(rng.random() < .25)
    if guessed:
        # initial-parameter guessing: contact point from nanite's own POC
        # estimate (the mechanism named by the property)
        pg = idnt.get_initial_fit_parameters(model_key=spec["model"])
        rec.event("initial contact point guessed by nanite")
        if abs(pg["contact_point"].value - spec["cp"]) > min(
                2e-7, .2 * depth0):
            rec.event("guessed contact point outside the basin (not judged)")
            return
        p0["contact_point"].value = pg["contact_point"].value
    kw = dict(model_key=spec["model"], params_initial=p0, segment=seg,
              weight_cp=wcp, method=method)
    if rng.random() < .3:
        kw["segment"] = ["approach", "retract"][seg]
    case = {"id": cid, "spec": spec, "method": method, "segment": seg,
            "weight_cp": wcp, "init": {k: p0[k].value for k in p0}}
    if rng.random() < .25:
        # the curve object was fitted before with a slightly or clearly
        # different value of a parameter that is held fixed (e.g. the nominal
        # instead of the calibrated tip radius): the judged fit below still
        # has to recover the generating values
        fixed = [k for k in p0 if not p0[k].vary and p0[k].value > 0
                 and k not in ("nu", "nu_S", "nu_L")]
        if fixed:
            import copy
            k = fixed[int(rng.integers(len(fixed)))]
            pp = copy.deepcopy(p0)
            r3 = rng.random()
            kwb = dict(kw)
            if r3 < .35:
                pp[k].value = pp[k].value + float(
                    rng.choice([-1, 1]) * rng.uniform(.2, 1) * 1e-8)
                if pp[k].value <= 0:
                    pp[k].value = p0[k].value + 1e-8
                case["fitted before with"] = {k: pp[k].value}
            elif r3 < .7:
                pp[k].value = pp[k].value * float(rng.uniform(1.05, 1.5))
                case["fitted before with"] = {k: pp[k].value}
            else:
                # identical parameters, the other segment (e.g. a loop over
                # both segments of one curve)
                kwb["segment"] = 1 - seg
                case["fitted before with"] = {"segment": 1 - seg}
            rec.event("curves fitted before with another fixed parameter")
            try:
                idnt.fit_model(**dict(kwb, params_initial=pp))
            except BaseException:  # noqa
                pass
    tap.clear()
    try:
        idnt.fit_model(**kw)
    except BaseException as e:  # noqa
        rec.evaluated(dg=case)
        rec.violation("fit-raises/" + type(e).__name__,
                      "fit_model raised %s: %s" % (type(e).__name__,
                                                  str(e)[:120]), case)
        return
    rec.evaluated(dg=(spec, method, seg, wcp), nontrivial=len(tap.log) > 0)
    rec.sample({"model": spec["model"], "n": spec["n"], "law": spec["law"],
                "snr": spec["snr"], "method": method, "segment": seg,
                "weight_cp": wcp, "E_true": truth["full"][ek],
                "E_init": p0[ek].value}, limit=3)
    fp = idnt.fit_properties
    if not rec.check(fp.get("success") is True, "no-success",
                     "fit did not report success", case):
        return
    pf = fp["params_fitted"]
    full = truth["full"]
    travel = truth["travel"]
    span = truth["span"]
    segm = np.asarray(idnt["segment"] == seg)
    x = np.asarray(idnt["tip position"])[segm]
    fitcol = np.asarray(idnt["fit"])[segm]
    clean = truth["clean"][segm]
    tol = TOL[method]
    errs = {ek: abs(pf[ek].value / full[ek] - 1),
            "contact_point": abs(pf["contact_point"].value
                                 - full["contact_point"]) / travel,
            "baseline": abs(pf["baseline"].value - full["baseline"]) / span}
    varied = [k for k in p0 if p0[k].vary]
    sigma = truth["sigma"]
    depth = full["contact_point"] - spec["zmin"]
    if wcp > 0.4 * depth:
        # the moving weights create a second minimum (modulus ~7x) when the
        # weighting window is comparable to the contact depth: outside the
        # stated basin (DESIGN C01), run but not judged
        rec.event("fits outside the stated basin (weight window > 0.4 depth)")
        return
    ref_scale = {ek: abs(full[ek]), "contact_point": travel,
                 "baseline": span}
    if method == "nelder" and full[ek] < 1e3:
        # scipy's Nelder-Mead stops on an absolute simplex size (xatol=1e-4):
        # below ~1 kPa that is not "optimizer precision" in relative terms
        rec.event("nelder fits with modulus < 1 kPa (absolute xatol, "
                  "not judged)")
        return
    if sigma == 0:
        rec.event("noise-free fits judged")
        # conditioning: optimiser termination leaves residuals of order
        # tol*span; a parameter is determined to cond x that
        cond = dict(zip(varied, crb(spec["model"], full, varied, x, wcp,
                                    tol * span) * np.sqrt(x.size)))
        for k, e in errs.items():
            if np.isfinite(cond.get(k, np.inf)):
                e = e / max(1.0, cond[k] / (tol * ref_scale[k]))
            else:
                rec.event("parameters not identifiable (skipped)")
                continue
            rec.maximum("noise-free rel. error %s (%s)" % (
                "E" if k == ek else k, method), e)
            rec.check(e <= tol, "noise-free/%s/%s" % (
                method, "modulus" if k == ek else k),
                "%s: relative error %.3e > %.1e (fit %r, truth %r)"
                % (k, e, tol, pf[k].value, full[k]), case)
        cdev = float(np.max(np.abs(fitcol - clean))) / span
        rec.maximum("noise-free |fit-data|/span (%s)" % method, cdev)
        ctol = tol
        if method == "nelder":
            # parameters within `tol` of their scales (modulus: relative,
            # contact point: of the travel, baseline: of the span) move the
            # curve at the deepest point by up to tol (1 + p travel/depth + 1)
            # of the span, p <= 2: the curve cannot be asked to agree better
            # than the precision granted to the parameters
            ctol = tol * (2 + 2 * travel / max(depth, 1e-12))
        rec.check(cdev <= ctol, "noise-free/%s/curve" % method,
                  "max |fit - data| = %.3e of the force span" % cdev, case)
        return
    # ---- noisy data
    if wcp > 0 and (spec["snr"] < 100 or wcp > depth / 4):
        rec.event("noisy fits outside the judged domain (weighting)")
        return
    if method == "nelder":
        # scipy's Nelder-Mead stops on *absolute* simplex size / objective
        # spread (xatol = fatol = 1e-4; the objective is ~1e-18 N^2, contact
        # point and baseline ~1e-7): it can stop well above the minimum. An
        # objective value more than twice that of the generating parameters
        # shows that the minimiser, not the estimate, is short of the
        # optimum: not judged, but counted - the share is bounded per shard.
        yseg = np.asarray(idnt["force"])[segm]
        w = ref.cp_weights(x, full["contact_point"], wcp)
        chi_true = float(np.sum(((yseg - clean) * w) ** 2))
        rec.event("noisy nelder fits")
        if fp["chi_sqr"] > 2 * chi_true:
            rec.event("noisy nelder fits stopped above the objective of the "
                      "generating parameters (not judged)")
            return
    c = 10.0 if wcp == 0 else 25.0
    sd = dict(zip(varied, crb(spec["model"], full, varied, x, wcp, sigma)))
    rec.event("noisy fits judged")
    abs_err = {ek: abs(pf[ek].value - full[ek]),
               "contact_point": abs(pf["contact_point"].value
                                    - full["contact_point"]),
               "baseline": abs(pf["baseline"].value - full["baseline"])}
    for k in (ek, "contact_point", "baseline"):
        if k not in sd or not np.isfinite(sd[k]) or \
                sd[k] > 0.02 * ref_scale[k]:
            rec.event("parameters not identifiable under noise (skipped)")
            continue
        bound = max(tol * ref_scale[k], c * sd[k])
        name = "modulus" if k == ek else k
        rec.maximum("noisy |error|/CRB %s (weight %s)"
                    % (name, "off" if wcp == 0 else "on"), abs_err[k] / sd[k])
        rec.check(abs_err[k] <= bound, "noisy/%s/%s" % (method, name),
                  "%s: |error| %.3e > %.0f x CRB (%.3e), SNR %g"
                  % (k, abs_err[k], c, sd[k], spec["snr"]), case)
    rms = float(np.sqrt(np.mean((fitcol - clean) ** 2)))
    bound = c * sigma * np.sqrt(len(varied) / x.size)
    rec.maximum("noisy rms(fit-clean)/(sigma sqrt(p/N))",
                rms / (sigma * np.sqrt(len(varied) / x.size)))
    rec.check(rms <= bound, "noisy/%s/curve" % method,
              "rms(fit - clean data) = %.3e > %.3e" % (rms, bound), case)


def _run_shard(rec, tier, seed, shard, nshards):
    with fitlab.MinimizeTap() as tap:
        for i in range(N_CASES[tier]):
            one_case(rec, tap, core.case_rng(seed, ID, shard, i), [shard, i])
        rec.event("lmfit.minimize calls from nanite.fit", tap.nfit())
    ev = rec.events
    nn = ev.get("noisy nelder fits", 0)
    npre = ev.get("noisy nelder fits stopped above the objective of the "
                  "generating parameters (not judged)", 0)
    rec.check(npre <= max(3, .01 * nn), "nelder/stops-short-too-often",
              "%d of %d noisy Nelder-Mead fits stopped above the objective "
              "value of the generating parameters" % (npre, nn),
              {"id": [shard, -1]})


def replay(rec, case):
    cid = case["case"]["id"]
    with fitlab.MinimizeTap() as tap:
        one_case(rec, tap, core.case_rng(case["seed"], ID, cid[0], cid[1]),
                 cid)


def run_shard(rec, tier, seed, shard, nshards):
    state0 = core.library_state()
    try:
        _run_shard(rec, tier, seed, shard, nshards)
    finally:
        core.check_library_state(rec, state0, {"id": [shard, -1]})
