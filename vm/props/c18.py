"""C18 - the model registry accepts only complete, consistent models and
stays consistent."""
import copy
import pathlib
import shutil
import sys
import tempfile
import types

import numpy as np

from .. import core, gen, fitlab, hmodels, ref

ID = "C18"
LEVEL = "exploration"
ANCHORS = [("model/core.py", "NaniteFitModel._module_check"),
           ("model/core.py", "NaniteFitModel._module_autocomplete"),
           ("model/logic.py", "register_model"),
           ("model/logic.py", "deregister_model"),
           ("model/logic.py", "load_model_from_file"),
           ("fit.py", "guess_initial_parameters"),
           ("model/core.py", "NaniteFitModel.compute_ancillaries")]
MIN_EVALS = {"quick": 800, "thorough": 15000}
MIN_EVENTS = {"faulty modules offered": 300, "registry operations": 400,
              "load calls with sys.path compared": 150,
              "ancillary dictionaries judged": 100}
TIMEOUT = {"quick": 900, "thorough": 3500}
N_SEQ = {"quick": 6, "thorough": 1200}     # per shard
RULE = ("cases: (a) every single-fault mutant of a valid model module "
        "(attribute deleted; key/name/unit lists lengthened, shortened; "
        "keys or defaults permuted; duplicate names; ancillary recipe "
        "incomplete), offered as module object and as generated file; (b) "
        "random sequences of register / deregister / load(register) / load "
        "of unimportable files, with the directory absent from or already on "
        "sys.path, checked against a dictionary model of the registry; (c) "
        "file copy of a shipped model vs the shipped one; (d) random "
        "ancillary dictionaries; distinct by digest of the case")
ASSUMPTIONS = [
    "model error = subclass of nanite.model.core.ModelError",
    "unimportable files: missing file, file importing a missing module, "
    "file importing a missing name, file with a syntax error",
    "generated files use unique stems (import caching is Python's, not "
    "nanite's)"]

BASE_SRC = '''
import lmfit
import numpy as np


def get_parameter_defaults():
    params = lmfit.Parameters()
    params.add("E", value=3e3, min=0)
    params.add("R", value=10e-6, min=0, vary=False)
    params.add("nu", value=.5, min=0, max=0.5, vary=False)
    params.add("contact_point", value=0)
    params.add("baseline", value=0)
    return params


def hertz_paraboloidal(delta, E, R, nu, contact_point=0, baseline=0):
    aa = 4/3 * E/(1-nu**2)*np.sqrt(R)
    root = contact_point-delta
    pos = root > 0
    bb = np.zeros_like(delta)
    bb[pos] = (root[pos])**(3/2)
    return aa*bb + baseline


def compute_ancillaries(idnt):
    return {"E": 1234.0, "extra": 7.0}


model_doc = hertz_paraboloidal.__doc__ or "doc"
model_func = hertz_paraboloidal
model_key = "KEY"
model_name = "harness file model KEY"
parameter_keys = ["E", "R", "nu", "contact_point", "baseline"]
parameter_names = ["Young's Modulus", "Tip Radius",
                   "Poisson's Ratio", "Contact Point", "Force Baseline"]
parameter_units = ["Pa", "m", "", "m", "N"]
parameter_anc_keys = ["E", "extra"]
parameter_anc_names = ["anc E", "anc extra"]
parameter_anc_units = ["Pa", "m"]
valid_axes_x = ["tip position"]
valid_axes_y = ["force"]
'''

REQUIRED = ["get_parameter_defaults", "model_doc", "model_func", "model_key",
            "model_name", "parameter_keys", "parameter_names",
            "parameter_units", "valid_axes_x", "valid_axes_y"]
FAULTS = [("delete", a) for a in REQUIRED] + [
    ("delete", "parameter_anc_keys"), ("delete", "parameter_anc_names"),
    ("delete", "parameter_anc_units"),
    ("lengthen", "parameter_keys"), ("lengthen", "parameter_names"),
    ("lengthen", "parameter_units"), ("shorten", "parameter_keys"),
    ("shorten", "parameter_names"), ("shorten", "parameter_units"),
    ("permute", "parameter_keys"), ("permute", "defaults"),
    ("duplicate", "parameter_names")]


def shards(tier):
    return 16


PARAM_LINES = ['    params.add("E", value=3e3, min=0)\n',
               '    params.add("R", value=10e-6, min=0, vary=False)\n',
               '    params.add("nu", value=.5, min=0, max=0.5, vary=False)\n',
               '    params.add("contact_point", value=0)\n',
               '    params.add("baseline", value=0)\n']
SIGNATURES = ["delta, E, R, nu, contact_point=0, baseline=0",
              "delta, R, E, nu, contact_point=0, baseline=0",
              "delta, E, nu, R, contact_point=0, baseline=0",
              "delta, E, R, nu, baseline=0, contact_point=0",
              "delta, nu, R, E, baseline=0, contact_point=0"]


def fault_source(key, fault, rng=None):
    """source text of the base module with one fault; with `rng` the module
    additionally carries a legal oddity (model function whose argument order
    differs from parameter_keys: warned about, not rejected) and the permuting
    faults hit a random pair of positions"""
    src = BASE_SRC.replace("KEY", key)
    kind, attr = fault
    if rng is not None:
        sig = SIGNATURES[int(rng.integers(len(SIGNATURES)))]
        src = src.replace("delta, E, R, nu, contact_point=0, baseline=0", sig)
        if kind == "permute":
            i, j = sorted(rng.choice(5, 2, replace=False).tolist())
            if attr == "parameter_keys":
                keys = ['E', 'R', 'nu', 'contact_point', 'baseline']
                keys[i], keys[j] = keys[j], keys[i]
                return src + "\nparameter_keys = %r\n" % keys
            lines = list(PARAM_LINES)
            lines[i], lines[j] = lines[j], lines[i]
            assert "".join(PARAM_LINES) in src
            return src.replace("".join(PARAM_LINES), "".join(lines))
        if kind == "duplicate":
            i, j = rng.choice(5, 2, replace=False).tolist()
            return src + "\nparameter_names = list(parameter_names)\n" \
                "parameter_names[%d] = parameter_names[%d]\n" % (i, j)
    if kind == "delete":
        if attr == "get_parameter_defaults":
            src = src.replace("def get_parameter_defaults():",
                              "def _get_parameter_defaults():")
        else:
            src += "\ndel %s\n" % attr
    elif kind == "lengthen":
        src += "\n%s = %s + ['x_extra']\n" % (attr, attr)
    elif kind == "shorten":
        src += "\n%s = %s[:-1]\n" % (attr, attr)
    elif kind == "permute" and attr == "parameter_keys":
        src += "\nparameter_keys = ['R', 'E', 'nu', 'contact_point', " \
               "'baseline']\n"
    elif kind == "permute":
        src = src.replace('    params.add("E", value=3e3, min=0)\n', "") \
            .replace('    params.add("contact_point", value=0)\n',
                     '    params.add("contact_point", value=0)\n'
                     '    params.add("E", value=3e3, min=0)\n')
    elif kind == "duplicate":
        src += "\nparameter_names = list(parameter_names)\n" \
               "parameter_names[1] = parameter_names[0]\n"
    return src


def module_from_source(src, name):
    mod = types.ModuleType(name)
    exec(compile(src, name + ".py", "exec"), mod.__dict__)
    return mod


def registry_state():
    from nanite.model import models_available
    return {k: id(v) for k, v in models_available.items()}


def check_faulty(rec, rng, cid, tmpdir, counter):
    """(a) all single-fault mutants"""
    from nanite import model
    from nanite.model.core import ModelError
    existing = sorted(model.models_available)
    for fault in FAULTS:
        for as_file in (False, True, "existing-key"):
            counter[0] += 1
            key = "hm_fault_%d_%d_%d" % (cid[0], cid[1], counter[0])
            if as_file == "existing-key":
                # a faulty module that carries the key of a model that is
                # already registered (e.g. a broken new version of it)
                if fault == ("delete", "model_key"):
                    continue
                key = existing[int(rng.integers(len(existing)))]
                as_file = bool(rng.integers(2))
                rec.event("faulty modules offered under an existing key")
            odd = bool(rng.random() < .5)
            src = fault_source(key, fault, rng if odd else None)
            if odd:
                rec.event("faulty modules with permuted argument order / "
                          "random fault position")
            case = {"id": cid, "kind": "faulty-module", "fault": list(fault),
                    "as_file": as_file, "source": src if odd else "base"}
            before = registry_state()
            saved = dict(model.models_available)
            path_before = list(sys.path)
            rec.event("faulty modules offered")
            rec.evaluated(dg=("fault", fault, as_file,
                              core.digest(src.replace(key, "KEY"))))
            try:
                if as_file:
                    f = pathlib.Path(tmpdir) / ("f%d_%s.py" % (counter[0],
                                                               key))
                    f.write_text(src)
                    model.load_model_from_file(f, register=True)
                else:
                    model.register_model(module_from_source(src, key))
            except ModelError:
                rec.event("faulty modules rejected with a model error")
            except BaseException as e:  # noqa
                rec.violation("faulty-module/%s-%s/not-a-model-error/%s"
                              % (fault[0], fault[1], type(e).__name__),
                              "module with fault %s rejected with %s (%s) "
                              "instead of a model error"
                              % (fault, type(e).__name__, str(e)[:80]), case)
            else:
                rec.violation("faulty-module/%s-%s/accepted" % fault,
                              "module with fault %s was accepted" % (fault,),
                              case)
            after = registry_state()
            rec.check(after == before, "faulty-module/registry-changed",
                      "registry changed by a rejected module: %s"
                      % sorted(set(after) ^ set(before)), case)
            if after != before:
                model.models_available.clear()
                model.models_available.update(saved)
            if as_file:
                rec.event("load calls with sys.path compared")
                rec.check(sys.path == path_before, "load/sys.path-changed",
                          "sys.path changed by a failed load", case)
                sys.path[:] = path_before


def check_edited_module(rec, rng, cid, tmpdir, counter):
    """a module object that was accepted before is edited (one fault) and
    offered again: the verdict belongs to what the module is NOW"""
    from nanite import model
    from nanite.model.core import ModelError
    for _ in range(4):
        counter[0] += 1
        key = "hm_edit_%d_%d_%d" % (cid[0], cid[1], counter[0])
        mod = module_from_source(BASE_SRC.replace("KEY", key), key)
        try:
            model.register_model(mod)
        except BaseException as e:  # noqa
            rec.violation("edited-module/valid-version-rejected/"
                          + type(e).__name__,
                          "the valid base module was rejected: %s"
                          % str(e)[:80], {"id": cid})
            return
        keep = bool(rng.random() < .5)
        if not keep:
            model.deregister_model(mod)
        fault = FAULTS[int(rng.integers(len(FAULTS)))]
        kind, attr = fault
        if fault in (("delete", "model_key"), ("permute", "defaults")) or (
                kind == "delete" and attr == "get_parameter_defaults"
                and False):
            fault = ("duplicate", "parameter_names")
            kind, attr = fault
        if kind == "delete":
            if hasattr(mod, attr):
                delattr(mod, attr)
        elif kind == "lengthen":
            setattr(mod, attr, list(getattr(mod, attr)) + ["x_extra"])
        elif kind == "shorten":
            setattr(mod, attr, list(getattr(mod, attr))[:-1])
        elif kind == "permute":
            keys = list(mod.parameter_keys)
            keys[0], keys[1] = keys[1], keys[0]
            mod.parameter_keys = keys
        else:
            names = list(mod.parameter_names)
            names[1] = names[0]
            mod.parameter_names = names
        case = {"id": cid, "kind": "edited-module", "fault": list(fault),
                "valid version still registered": keep}
        before = registry_state()
        rec.event("modules edited after acceptance and offered again")
        rec.evaluated(dg=("edited", fault, keep, cid, counter[0]))
        try:
            model.register_model(mod)
        except ModelError:
            pass
        except BaseException as e:  # noqa
            rec.violation("edited-module/%s-%s/not-a-model-error/%s"
                          % (kind, attr, type(e).__name__),
                          "module edited after acceptance (fault %s) "
                          "rejected with %s (%s) instead of a model error"
                          % (fault, type(e).__name__, str(e)[:80]), case)
        else:
            rec.violation("edited-module/%s-%s/accepted" % fault,
                          "a module that was accepted before, then edited "
                          "(fault %s), was accepted again" % (fault,), case)
        after = registry_state()
        rec.check(after == before, "edited-module/registry-changed",
                  "registry changed by a rejected module: %s"
                  % sorted(set(after) ^ set(before)), case)
        model.models_available.pop(key, None)


def check_sequence(rec, rng, cid, tmpdir, counter):
    """(b) random registry sequences against a dict model"""
    from nanite import model
    from nanite.model.core import ModelError, ModelImportError, \
        NaniteFitModel
    shadow = dict(registry_state())
    mine = {}      # key -> NaniteFitModel registered by this sequence
    ops = []
    onpath = bool(rng.random() < .5)
    d = pathlib.Path(tmpdir) / ("seq_%d_%d" % (cid[0], cid[1]))
    d.mkdir(exist_ok=True)
    if onpath:
        sys.path.insert(int(rng.integers(0, len(sys.path) + 1)), str(d))
        if rng.random() < .5:
            sys.path.append(str(d))     # listed twice
    try:
        for step in range(int(rng.integers(4, 12))):
            counter[0] += 1
            key = "hm_seq_%d_%d_%d" % (cid[0], cid[1], counter[0])
            op = ["register", "register-model-object", "deregister",
                  "load", "load-register", "load-missing",
                  "load-missing-import", "load-missing-name",
                  "load-syntax-error"][int(rng.integers(9))]
            case = {"id": cid, "kind": "sequence", "ops": ops + [op],
                    "dir_on_sys_path": onpath}
            path_before = list(sys.path)
            rec.event("registry operations")
            rec.evaluated(dg=("seq", cid, step, op))
            try:
                if op == "register":
                    md = model.register_model(module_from_source(
                        BASE_SRC.replace("KEY", key), key))
                    shadow[key] = id(md)
                    mine[key] = md
                elif op == "register-model-object":
                    md0 = NaniteFitModel(module_from_source(
                        BASE_SRC.replace("KEY", key), key))
                    md = model.register_model(md0)
                    rec.check(md is md0, "register/returns-other-object",
                              "register_model(NaniteFitModel) returned "
                              "another object", case)
                    shadow[key] = id(md0)
                    mine[key] = md0
                elif op == "deregister":
                    if not mine:
                        ops.append(op + ":nothing")
                        continue
                    k = sorted(mine)[int(rng.integers(len(mine)))]
                    model.deregister_model(mine.pop(k))
                    shadow.pop(k)
                elif op in ("load", "load-register"):
                    f = d / (key + ".py")
                    f.write_text(BASE_SRC.replace("KEY", key))
                    md = model.load_model_from_file(
                        f, register=(op == "load-register"))
                    rec.check(isinstance(md, NaniteFitModel) and
                              md.model_key == key, "load/wrong-model",
                              "load returned %r" % (md,), case)
                    if op == "load-register":
                        shadow[key] = id(model.models_available.get(key))
                        mine[key] = model.models_available.get(key)
                else:
                    f = d / (key + ".py")
                    if op == "load-missing-import":
                        f.write_text("import not_a_module_%s\n" % key
                                     + BASE_SRC.replace("KEY", key))
                    elif op == "load-missing-name":
                        f.write_text("from numpy import no_such_name_xyz\n"
                                     + BASE_SRC.replace("KEY", key))
                    elif op == "load-syntax-error":
                        f.write_text("def broken(:\n    pass\n")
                    try:
                        model.load_model_from_file(
                            f, register=bool(rng.integers(2)))
                    except ModelImportError:
                        rec.event("unimportable files -> ModelImportError")
                    except BaseException as e:  # noqa
                        rec.violation(
                            "load/%s/not-the-import-error/%s"
                            % (op, type(e).__name__),
                            "%s raised %s (%s) instead of ModelImportError"
                            % (op, type(e).__name__, str(e)[:80]), case)
                    else:
                        rec.violation("load/%s/accepted" % op,
                                      "unimportable file accepted", case)
            except BaseException as e:  # noqa
                rec.violation("sequence/%s/raises/%s" % (op,
                                                        type(e).__name__),
                              "%s raised %s: %s" % (op, type(e).__name__,
                                                    str(e)[:100]), case)
            ops.append(op)
            if op.startswith("load"):
                rec.event("load calls with sys.path compared")
                rec.check(sys.path == path_before, "load/sys.path-changed",
                          lambda: "sys.path changed by %s: removed %s, order "
                          "changed %s" % (
                              op, [p for p in path_before
                                   if path_before.count(p)
                                   != sys.path.count(p)],
                              sorted(sys.path) == sorted(path_before)), case)
                sys.path[:] = path_before
            rec.check(registry_state() == shadow, "registry/differs-from-"
                      "dict-model", lambda: "registry keys/objects differ "
                      "from the model after %s: %s"
                      % (ops, sorted(set(registry_state()) ^ set(shadow))),
                      case)
            # documented defaults of everything this sequence registered
            for k, md in mine.items():
                cur = model.models_available.get(k)
                ok = (cur is not None and callable(cur.model)
                      and callable(cur.residual)
                      and cur.get_parm_name("E") == "Young's Modulus"
                      and cur.get_parm_unit("R") == "m"
                      and cur.get_anc_parm_keys() == ["max_indent", "E",
                                                      "extra"])
                rec.check(ok, "registered-model/defaults",
                          "registered model %s lacks documented defaults" % k,
                          case)
    finally:
        for k in list(mine):
            model.models_available.pop(k, None)
        while str(d) in sys.path:
            sys.path.remove(str(d))
    rec.sample({"ops": ops, "dir_on_sys_path": onpath}, limit=2)


def check_file_copy(rec, rng, cid, tmpdir, counter):
    """(c) a shipped model loaded from a file behaves like the shipped one"""
    from nanite import model
    counter[0] += 1
    mk = gen.SHIPPED[int(rng.integers(5))]
    shipped = model.models_available[mk]
    src = pathlib.Path(shipped.module.__file__).read_text()
    key = "%s_file_%d_%d_%d" % (mk, cid[0], cid[1], counter[0])
    src = src.replace('model_key = "%s"' % mk, 'model_key = "%s"' % key)
    f = pathlib.Path(tmpdir) / (key + ".py")
    f.write_text(src)
    case = {"id": cid, "kind": "file-copy", "model": mk}
    rec.evaluated(dg=("filecopy", mk, cid))
    md = model.load_model_from_file(f, register=True)
    try:
        prm = gen.draw_params(rng, mk)
        full = dict(prm, contact_point=1e-7, baseline=1e-10)
        x = np.linspace(2e-6, -2e-6, 300)
        a = shipped.model(gen.nanite_params(mk, full), x)
        b = md.model(gen.nanite_params(key, full), x)
        rec.check(np.array_equal(a, b), "file-copy/model-output-differs",
                  "file copy of %s evaluates differently" % mk, case)
        rec.check(core.fp(shipped.get_parameter_defaults()) ==
                  core.fp(md.get_parameter_defaults()) and
                  shipped.parameter_units == md.parameter_units and
                  shipped.parameter_names == md.parameter_names,
                  "file-copy/defaults-differ", "defaults/units differ", case)
        spec = fitlab.draw_curve_spec(rng, models=[mk], npts=(200,),
                                      noise_snr=(50,), with_tip=True)
        res = []
        for k_ in (mk, key):
            idnt, truth = fitlab.build_curve(spec)
            p0, ek = fitlab.initial_params(rng, spec, truth, basin=False)
            p0 = gen.nanite_params(k_, {n: p0[n].value for n in p0})
            idnt.fit_model(model_key=k_, params_initial=p0)
            pf = idnt.fit_properties["params_fitted"]
            res.append(({n: pf[n].value for n in pf},
                        np.array(idnt["fit"], copy=True)))
        rec.event("file-copy fits compared")
        rec.check(res[0][0] == res[1][0] and
                  np.array_equal(res[0][1], res[1][1], equal_nan=True),
                  "file-copy/fit-differs",
                  "fit with the file copy of %s differs: %s vs %s"
                  % (mk, res[0][0], res[1][0]), case)
    finally:
        model.models_available.pop(key, None)


def check_derived(rec, rng, cid, tmpdir, counter):
    """a module derived from a shipped one (star import, own model function)
    is loaded and registered: the shipped model is what it was before"""
    from nanite import model
    counter[0] += 1
    mk = gen.SHIPPED[int(rng.integers(5))]
    shipped = model.models_available[mk]
    prm = gen.draw_params(rng, mk)
    full = dict(prm, contact_point=1e-7, baseline=1e-10)
    x = np.linspace(2e-6, -2e-6, 300)
    y = ref.force(mk, x, full) * (1 + 0.01 * np.sin(np.arange(300)))
    case = {"id": cid, "kind": "derived-module", "model": mk}

    def observe():
        p = gen.nanite_params(mk, full)
        return [np.array(shipped.model(p, x)),
                np.array(shipped.module.model(p, x)),
                np.array(shipped.residual(p, x, y, 5e-7)),
                np.array(shipped.module.residual(p, x, y, 5e-7)),
                np.array(shipped.model(p, x[::-1].copy()))]
    before = observe()
    key = None
    try:
        key, md = hmodels.load_derived(
            mk, tmpdir, "%d_%d_%d" % (cid[0], cid[1], counter[0]))
    except BaseException as e:  # noqa
        rec.event("derived module not accepted (%s)" % type(e).__name__)
    try:
        after = observe()
        rec.event("shipped models observed before / after a derived module "
                  "was loaded")
        rec.evaluated(dg=("derived", mk, cid))
        bad = [n for n, a_, b_ in zip(
            ["model", "module.model", "residual", "module.residual",
             "model (ascending)"], before, after)
            if not np.array_equal(a_, b_, equal_nan=True)]
        rec.check(not bad, "derived-module/changes-the-shipped-model",
                  "after loading a module derived from %s the shipped "
                  "model's %s give other values than before" % (mk, bad),
                  case)
        want = ref.force(mk, x, full)
        scale = float(np.max(np.abs(want)))
        rec.check(bool(np.max(np.abs(after[0] - want)) <= 1e-9 * scale),
                  "derived-module/shipped-model-off-its-formula",
                  "after loading a module derived from %s the shipped model "
                  "deviates from its formula by %.3g of the maximum"
                  % (mk, float(np.max(np.abs(after[0] - want))) / scale),
                  case)
    finally:
        if key is not None:
            model.models_available.pop(key, None)


OWN_MODEL = '''

def model(params, delta):
    p = params.valuesdict()
    return hertz_paraboloidal(delta=delta, **p) + 7e-9   # own signature
'''
OWN_RESIDUAL = '''

def residual(params, delta, force, weight_cp=5e-7):
    p = params.valuesdict()
    return 3.0 * (force - hertz_paraboloidal(delta=delta, **p))
'''


def check_partial(rec, rng, cid, tmpdir, counter):
    """(e) modules that bring their own `model` or their own `residual` (one
    of the two): accepted, the own function is used, the missing one gets the
    documented default wrapper"""
    from nanite import model
    for own in ("model", "residual", "both", "neither", "no-compute-anc"):
        for as_file in (False, True):
            counter[0] += 1
            key = "hm_part_%s_%d_%d_%d" % (own, cid[0], cid[1], counter[0])
            src = BASE_SRC.replace("KEY", key)
            if own in ("model", "both"):
                src += OWN_MODEL
            if own in ("residual", "both"):
                src += OWN_RESIDUAL
            if own == "no-compute-anc":
                # the lists that describe ancillaries are there, the function
                # that computes them is not: a model without own ancillaries
                src += "\ndel compute_ancillaries\n"
            case = {"id": cid, "kind": "partial-module", "own": own,
                    "as_file": as_file}
            rec.event("modules with own model / residual offered")
            rec.evaluated(dg=("partial", own, as_file))
            try:
                if as_file:
                    f = pathlib.Path(tmpdir) / ("p%d_%s.py" % (counter[0],
                                                               key))
                    f.write_text(src)
                    md = model.load_model_from_file(f, register=True)
                else:
                    md = model.register_model(module_from_source(src, key))
                    md = model.models_available[key]
            except BaseException as e:  # noqa
                rec.violation("partial-module/%s/rejected/%s"
                              % (own, type(e).__name__),
                              "valid module with own %s rejected: %s"
                              % (own, str(e)[:80]), case)
                model.models_available.pop(key, None)
                continue
            try:
                prm = {"E": float(10 ** rng.uniform(2, 5)), "R": 5e-6,
                       "nu": .4, "contact_point": 1e-7, "baseline": 2e-10}
                par = gen.nanite_params(key, prm)
                x = np.linspace(2e-6, -2e-6, 64)
                want = ref.force("hertz_para", x, prm)
                got = md.model(par, x)
                sig = 7e-9 if own in ("model", "both") else 0.0
                rec.check(np.allclose(got, want + sig, rtol=1e-12, atol=0),
                          "partial-module/%s/model" % own,
                          "model() of a module with own %s does not evaluate "
                          "%s" % (own, "its own function" if sig else
                                  "the default wrapper"), case)
                if own == "no-compute-anc":
                    common = model.models_available[
                        "hertz_para"].get_anc_parm_keys()
                    rec.check(list(md.get_anc_parm_keys()) == list(common),
                              "partial-module/no-compute-anc/ancillary-keys",
                              "a module without compute_ancillaries reports "
                              "the ancillary keys %s (common keys: %s)"
                              % (md.get_anc_parm_keys(), common), case)
                    spec_ = fitlab.draw_curve_spec(
                        rng, models=["hertz_para"], npts=(150,),
                        noise_snr=(50,), with_tip=True)
                    ic, _ = fitlab.build_curve(spec_)
                    ic.get_initial_fit_parameters(model_key=key)
                force = want + 1e-10
                r = md.residual(par, x, force, 5e-7)
                if own in ("residual", "both"):
                    wr = 3.0 * (force - want)
                else:
                    # (the default residual wraps `model_func`, not the
                    #  module's own `model`)
                    wr = (force - want) * ref.cp_weights(x, 1e-7, 5e-7)
                rec.check(np.allclose(r, wr, rtol=1e-9, atol=1e-24),
                          "partial-module/%s/residual" % own,
                          "residual() of a module with own %s is not %s"
                          % (own, "its own function" if own in
                             ("residual", "both") else "the default"), case)
            except BaseException as e:  # noqa
                rec.violation("partial-module/%s/raises/%s"
                              % (own, type(e).__name__),
                              "evaluating a module with own %s raised %s"
                              % (own, str(e)[:80]), case)
            finally:
                model.models_available.pop(key, None)


def check_key_reuse(rec, rng, cid, tmpdir, counter):
    """(f) a key that was deregistered is registered again by a module with
    another model function (a new version of the model): the registered
    model evaluates the NEW function"""
    from nanite import model
    counter[0] += 1
    key = "hm_reuse_%d_%d_%d" % (cid[0], cid[1], counter[0])
    offs = [float(rng.uniform(1, 9) * 1e-9) for _ in range(2)]
    case = {"id": cid, "kind": "key-reuse", "offsets": offs}
    prm = {"E": float(10 ** rng.uniform(2, 5)), "R": 5e-6, "nu": .4,
           "contact_point": 1e-7, "baseline": 2e-10}
    x = np.linspace(2e-6, -2e-6, 48)
    want = ref.force("hertz_para", x, prm)
    for version, off in enumerate(offs):
        src = BASE_SRC.replace("KEY", key).replace(
            "return aa*bb + baseline", "return aa*bb + baseline + %r" % off)
        as_file = bool(rng.integers(2))
        rec.event("keys registered again with another function")
        rec.evaluated(dg=("key-reuse", version, as_file, cid))
        try:
            if as_file:
                counter[0] += 1
                f = pathlib.Path(tmpdir) / ("r%d_%s.py" % (counter[0], key))
                f.write_text(src)
                md = model.load_model_from_file(f, register=True)
            else:
                model.register_model(module_from_source(src, key))
                md = model.models_available[key]
            got = md.model(gen.nanite_params(key, prm), x)
            force = want + off + 1e-10
            res = md.residual(gen.nanite_params(key, prm), x, force, False)
        except BaseException as e:  # noqa
            rec.violation("key-reuse/raises/" + type(e).__name__,
                          "version %d of a model under a re-used key raised "
                          "%s" % (version, str(e)[:80]), case)
            model.models_available.pop(key, None)
            return
        rec.check(np.allclose(got, want + off, rtol=1e-12, atol=0),
                  "key-reuse/model-is-an-earlier-version",
                  "version %d registered under a re-used key evaluates "
                  "another function (offset seen %r, expected %r)"
                  % (version, float(np.median(got - want)), off), case)
        rec.check(np.allclose(res, 1e-10, rtol=1e-6, atol=0),
                  "key-reuse/residual-is-an-earlier-version",
                  "default residual of version %d uses another function"
                  % version, case)
        if version == 0:
            model.deregister_model(md)
    model.models_available.pop(key, None)


def check_ancillaries(rec, rng, cid):
    """(d) ancillary values seed matching fit parameters unless NaN"""
    from nanite import model
    from nanite.fit import guess_initial_parameters
    mods = hmodels.build()
    m_anc = [m for m in mods if m.model_key == "hm_anc"][0]
    model.register_model(m_anc)
    try:
        spec = fitlab.draw_curve_spec(rng, models=["hertz_cone"],
                                      npts=(150,), noise_snr=(50,),
                                      with_tip=True)
        idnt, _ = fitlab.build_curve(spec)
        for _ in range(6):
            anc = {}
            for k in ("E", "alpha", "other", "contact_point"):
                r = rng.random()
                anc[k] = np.nan if r < .35 else float(
                    rng.uniform(1, 80) if k == "alpha"
                    else rng.uniform(-1e-6, 1e-6) if k == "contact_point"
                    else 10 ** rng.uniform(1, 5))
                if .35 <= r < .5:
                    # zero is a value like any other (within the bounds)
                    anc[k] = 0.0
            hmodels.ANC_RETURN.clear()
            hmodels.ANC_RETURN.update(anc)
            case = {"id": cid, "kind": "ancillaries", "anc": anc}
            rec.event("ancillary dictionaries judged")
            rec.evaluated(dg=("anc", anc))
            idnt.fit_properties["params_initial"] = None
            p = idnt.get_initial_fit_parameters(model_key="hm_anc")
            d = m_anc.get_parameter_defaults()
            # (without a usable ancillary the contact point is the one
            #  estimated from the data, as for a model without ancillaries)
            cp_data = idnt.get_initial_fit_parameters(
                model_key="hertz_cone", model_ancillaries=False)[
                "contact_point"].value
            idnt.fit_properties["params_initial"] = None
            p = idnt.get_initial_fit_parameters(model_key="hm_anc")
            for k in ("E", "alpha", "contact_point"):
                want = d[k].value if np.isnan(anc[k]) else anc[k]
                if k == "contact_point" and np.isnan(anc[k]):
                    want = cp_data
                rec.check(p[k].value == want, "ancillary-seeding/" + k,
                          "ancillary %s=%r -> initial %r, expected %r"
                          % (k, anc[k], p[k].value, want), case)
            rec.check("other" not in p and p["nu"].value == d["nu"].value,
                      "ancillary-seeding/unrelated",
                      "non-matching ancillary influenced parameters", case)
            a = idnt.get_ancillary_parameters(model_key="hm_anc")
            rec.check(list(a.keys()) == ["max_indent", "E", "alpha", "other",
                                         "contact_point"],
                      "ancillary-keys", "ancillary keys %s" % list(a), case)
    finally:
        model.models_available.pop("hm_anc", None)
        hmodels.ANC_RETURN.update({"E": np.nan, "alpha": np.nan,
                                   "other": np.nan, "contact_point": np.nan})


def run_all(rec, rng, cid, tmpdir, counter, with_faults):
    if with_faults:
        check_faulty(rec, rng, cid, tmpdir, counter)
    check_sequence(rec, rng, cid, tmpdir, counter)
    check_file_copy(rec, rng, cid, tmpdir, counter)
    check_partial(rec, rng, cid, tmpdir, counter)
    check_key_reuse(rec, rng, cid, tmpdir, counter)
    check_ancillaries(rec, rng, cid)
    check_derived(rec, rng, cid, tmpdir, counter)
    check_edited_module(rec, rng, cid, tmpdir, counter)


def run_shard(rec, tier, seed, shard, nshards):
    tmpdir = tempfile.mkdtemp(prefix="nv_c18_")
    counter = [0]
    try:
        for i in range(N_SEQ[tier]):
            run_all(rec, core.case_rng(seed, ID, shard, i), [shard, i],
                    tmpdir, counter, with_faults=(i % 3 == 0))
    finally:
        shutil.rmtree(tmpdir, ignore_errors=True)


def replay(rec, case):
    cid = case["case"]["id"]
    tmpdir = tempfile.mkdtemp(prefix="nv_c18_")
    try:
        run_all(rec, core.case_rng(case["seed"], ID, cid[0], cid[1]), cid,
                tmpdir, [10 ** 6], True)
    finally:
        shutil.rmtree(tmpdir, ignore_errors=True)
