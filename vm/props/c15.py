"""C15 - training sets load clean, aligned, and survive export."""
import pathlib
import shutil
import tempfile

import numpy as np

from .. import core, gen
from . import c16

ID = "C15"
LEVEL = "exploration"
ANCHORS = [("rate/rater.py", "IndentationRater.load_training_set"),
           ("rate/rater.py", "IndentationRater.compute_sample_weight"),
           ("rate/io.py", "RateManager.export_training_set"),
           ("rate/io.py", "RateManager.get_training_set"),
           ("rate/features.py", "IndentationFeatures.get_feature_names")]
MIN_EVALS = {"quick": 1500, "thorough": 30000}
MIN_EVENTS = {"matrices loaded and compared": 1000,
              "sample-weight vectors judged": 1000,
              "exported curves compared": 20,
              "rows dropped together with their response": 200,
              "values imputed": 200, "infinities replaced": 200}
TIMEOUT = {"quick": 900, "thorough": 3500}
N_MAT = {"quick": 110, "thorough": 8000}     # matrices per shard
N_EXPORT = {"quick": 2, "thorough": 12}       # exports per shard
RULE = ("case = (training matrix written by the harness: 2..40 rows, NaN / "
        "inf patterns by row, column and response class, all-NaN columns, "
        "missing classes) x requested feature subset x which_type x the 3 "
        "cleaning flags; compared bitwise with a 15-line sequential "
        "reference loader; plus exports of rating containers of fitted "
        "curves; distinct by digest of (matrix, subset, type, flags)")
ASSUMPTIONS = [
    "n >= 2 rows (numpy.loadtxt returns a 0-d response for one row), >= 1 "
    "selected column, no column consisting only of +-inf after dropping "
    "('largest finite magnitude' undefined there) - such cases are counted "
    "and skipped",
    "the first selected column carries unique finite row tags so that every "
    "surviving row identifies its response independently of the reference",
    "text format of exported sets: '%.2e'"]


def shards(tier):
    return 16


def reference(X, y, impute, remove, repinf):
    X, y = X.copy(), y.copy()
    dropped = imputed = replaced = 0
    if impute:
        z = y == 0
        for j in range(X.shape[1]):
            col = X[:, j]
            nan = np.isnan(col)
            tgt, src = z & nan, z & ~nan
            if tgt.any() and src.any():
                with np.errstate(all="ignore"):
                    X[tgt, j] = np.mean(col[src])
                imputed += int(tgt.sum())
    if remove:
        keep = ~np.isnan(X).any(axis=1)
        dropped = int((~keep).sum())
        X, y = X[keep], y[keep]
    if repinf:
        for j in range(X.shape[1]):
            col = X[:, j]
            inf = np.isinf(col)
            if inf.any():
                fin = np.abs(col[~inf])
                fin = fin[~np.isnan(fin)]
                if fin.size == 0:
                    return None
                m = fin.max()
                X[col == np.inf, j] = 2 * m
                X[col == -np.inf, j] = -2 * m
                replaced += int(inf.sum())
    return X, y, dropped, imputed, replaced


def write_ts(d, cols, X, y):
    d.mkdir(parents=True, exist_ok=True)
    for j, c in enumerate(cols):
        np.savetxt(d / ("train_%s.txt" % c), X[:, j])
    np.savetxt(d / "train_response.txt", y)


def matrix_case(rec, rng, cid, scratch):
    from nanite.rate.rater import IndentationRater as IR
    alln = IR.get_feature_names()
    n = int(rng.integers(2, 41))
    X = rng.normal(size=(n, len(alln))) * 10 ** rng.uniform(-3, 3,
                                                            size=len(alln))
    y = rng.integers(0, 11, size=n).astype(float)
    if rng.random() < .35:
        y[:] = rng.integers(0, 3, size=n)
    pn = float(rng.choice([0, .05, .3]))
    pinf = float(rng.choice([0, .05, .2]))
    X[rng.random(X.shape) < pn] = np.nan
    m = rng.random(X.shape) < pinf
    X[m] = np.where(rng.random(int(m.sum())) < .5, np.inf, -np.inf)
    if rng.random() < .15:
        X[:, int(rng.integers(X.shape[1]))] = np.nan
    if rng.random() < .1:
        X[int(rng.integers(n)), :] = np.nan
    sub = None if rng.random() < .5 else [
        str(c) for c in rng.choice(alln, size=int(rng.integers(1, len(alln))),
                                   replace=False)]
    wt = [None, "all", "binary", "continuous", ["binary", "continuous"],
          ["continuous", "binary"]][int(rng.integers(6))]
    flags = dict(replace_inf=bool(rng.integers(2)),
                 impute_zero_rated_nan=bool(rng.integers(2)),
                 remove_nan=bool(rng.integers(2)))
    if rng.random() < .4:
        flags = dict(replace_inf=True, impute_zero_rated_nan=True,
                     remove_nan=True)
    try:
        want_names = IR.get_feature_names(
            which_type=wt if wt is not None else ["continuous"], names=sub)
    except ValueError:
        return
    # independent expectation for the names: sorted, requested, of the type
    pref = {"all": ("feat_",), "binary": ("feat_bin_",),
            "continuous": ("feat_con_",), None: ("feat_con_",)}
    prefs = pref[wt] if not isinstance(wt, list) else ("feat_bin_",
                                                       "feat_con_")
    exp_names = sorted(c for c in alln if c.startswith(prefs)
                       and (sub is None or c in sub))
    if not exp_names:
        rec.event("empty selections (skipped)")
        return
    idx = [alln.index(c) for c in exp_names]
    # unique finite row tags in the first selected column
    X[:, idx[0]] = np.arange(n) + .5
    d = pathlib.Path(scratch) / ("ts_%d_%d" % (cid[0], cid[1]))
    write_ts(d, alln, X, y)
    # what the text files hold (np.savetxt writes %.18e: exact)
    case = {"id": cid, "n": n, "subset": sub, "which_type": wt,
            "flags": flags, "nan_frac": pn, "inf_frac": pinf}
    ref = reference(X[:, idx], y, flags["impute_zero_rated_nan"],
                    flags["remove_nan"], flags["replace_inf"])
    if rng.random() < .4:
        # the same directory was loaded before with other flags (each load
        # is a function of the files and its own flags only)
        other = dict(replace_inf=bool(rng.integers(2)),
                     impute_zero_rated_nan=bool(rng.integers(2)),
                     remove_nan=bool(rng.integers(2)))
        case["loaded_before_with"] = other
        rec.event("directories loaded before with other flags")
        try:
            IR.load_training_set(d, names=sub, which_type=wt, **other)
        except BaseException:  # noqa
            pass
    try:
        out = IR.load_training_set(d, names=sub, which_type=wt,
                                   ret_names=True, **flags)
    except BaseException as e:  # noqa
        shutil.rmtree(d, ignore_errors=True)
        if ref is None:
            rec.event("undefined cases (column only +-inf) skipped")
            return
        rec.evaluated(dg=case)
        rec.violation("load-raises/" + type(e).__name__,
                      "load_training_set raised %s: %s" % (type(e).__name__,
                                                          str(e)[:80]), case)
        return
    shutil.rmtree(d, ignore_errors=True)
    if ref is None:
        rec.event("undefined cases (column only +-inf) skipped")
        return
    Xo, yo, no = out
    rec.evaluated(dg=(case, core.fp(X)))
    rec.event("matrices loaded and compared")
    rec.event("rows dropped together with their response", ref[2])
    rec.event("values imputed", ref[3])
    rec.event("infinities replaced", ref[4])
    rec.check(list(no) == exp_names == list(want_names), "names",
              "names %s, expected sorted requested %s" % (no, exp_names), case)
    ok = Xo.shape == ref[0].shape and np.array_equal(Xo, ref[0],
                                                     equal_nan=True)
    rec.check(ok, "samples-differ-from-reference",
              lambda: "samples differ from the sequential reference: shape "
              "%s vs %s" % (Xo.shape, ref[0].shape), case)
    rec.check(np.array_equal(np.atleast_1d(yo), ref[1]),
              "responses-differ-from-reference",
              "responses %s vs reference %s" % (yo, ref[1]), case)
    # pairing by tags, independent of the reference
    yo1 = np.atleast_1d(yo)
    if Xo.ndim == 2 and Xo.shape[0] == yo1.shape[0] and Xo.shape[0]:
        tags = Xo[:, 0]
        rows = np.round(tags - .5).astype(int)
        good = np.all(np.abs(tags - .5 - rows) < 1e-9) and \
            len(set(rows.tolist())) == rows.size and \
            np.all((rows >= 0) & (rows < n))
        rec.check(bool(good) and np.array_equal(yo1, y[rows]),
                  "rows-not-paired-with-responses",
                  "row tags %s carry responses %s, written %s"
                  % (rows.tolist(), yo1.tolist(),
                     y[rows].tolist() if good else "?"), case)
    else:
        rec.check(Xo.shape[0] == yo1.shape[0], "rows-responses-length",
                  "%d rows, %d responses" % (Xo.shape[0], yo1.shape[0]),
                  case)
    if all(flags.values()):
        rec.check(not np.isnan(Xo).any() and not np.isinf(Xo).any(),
                  "not-clean", "NaN or inf left with all flags on", case)
    # sample weights
    if yo1.size:
        w = IR.compute_sample_weight(Xo, yo1)
        rec.event("sample-weight vectors judged")
        cls = {c: float(np.sum(w[yo1 == c])) for c in np.unique(yo1)}
        tot = list(cls.values())
        rec.check(np.all(w >= 0) and abs(np.sum(w) - 1) <= 1e-12 and
                  max(tot) - min(tot) <= 1e-12, "sample-weights",
                  "weights sum %r, class totals %s" % (float(np.sum(w)), cls),
                  case)
        if np.all(yo1 == np.round(yo1)):
            # the same ratings as integers (what a rating container hands
            # out): same weights
            wi = IR.compute_sample_weight(Xo, yo1.astype(np.int64))
            rec.event("sample-weight vectors for integer responses")
            rec.check(np.shape(wi) == np.shape(w) and
                      np.allclose(np.asarray(wi, dtype=float), w, rtol=1e-12,
                                  atol=0, equal_nan=False),
                      "sample-weights/integer-responses",
                      "integer responses give weights %s, the same ratings as "
                      "floats %s" % (np.asarray(wi)[:6], w[:6]), case)
    rec.sample(case, limit=3)


def export_case(rec, rng, cid, scratch):
    from nanite.rate.io import RateManager, save_hdf5
    from nanite.rate.rater import IndentationRater as IR
    from nanite.rate.features import IndentationFeatures as IF
    scratch = pathlib.Path(scratch)
    f = scratch / ("exp_meas_%d_%d.h5" % (cid[0], cid[1]))
    ncur = int(rng.integers(2, 5))
    c16.make_file(rng, f, ncur)
    h5 = scratch / ("exp_ratings_%d_%d.h5" % (cid[0], cid[1]))
    curves = []
    for en in rng.permutation(ncur):
        idnt, kw, pipe = c16.fitted_curve(rng, f, int(en),
                                          int(rng.integers(5)))
        rate = int(rng.integers(0, 11))
        save_hdf5(h5, idnt, rate, "u", "c")
        curves.append((int(en), rate, idnt))
    rm = RateManager(h5)
    if rng.random() < .6:
        # a manager that has been used before, then the container changes
        # on disk (curve re-rated, further curve added): the export must
        # reflect the container as it is now
        len(rm.ratings)
        rm.get_rates(which="user")
        en0, rate0, idnt0 = curves[0]
        newrate = (rate0 + int(rng.integers(1, 10))) % 11
        save_hdf5(h5, idnt0, newrate, "u", "re-rated")
        curves[0] = (en0, newrate, idnt0)
        f2 = scratch / ("exp_meas2_%d_%d.h5" % (cid[0], cid[1]))
        c16.make_file(rng, f2, 1)
        idnt2, _, _ = c16.fitted_curve(rng, f2, 0, 0)
        rate2 = int(rng.integers(0, 11))
        save_hdf5(h5, idnt2, rate2, "u", "added later")
        rec.event("exports by a manager used before the container changed")
        extra = (idnt2, rate2)
    else:
        extra = None
    dropped = None
    if extra is None and len(curves) >= 2 and rng.random() < .7:
        # one stored entry is incomplete (its columns were never written,
        # e.g. an interrupted save of an older version): it is ignored as a
        # whole - no sample row and no response for it
        import h5py
        import warnings as _w
        with h5py.File(h5, "a") as hf:
            keys = list(hf["analysis"])
            kdel = keys[int(rng.integers(len(keys)))]
            en_del = int(hf["analysis"][kdel].attrs["enum"]) \
                if "enum" in hf["analysis"][kdel].attrs else None
            if en_del is None:
                en_del = int(kdel.rsplit("_", 1)[-1])
            del hf["analysis"][kdel]["fit"]
        dropped = en_del
        curves = [c_ for c_ in curves if c_[0] != en_del]
        ncur -= 1
        rec.event("exports from a container with an incomplete entry")
        _w.simplefilter("ignore")
        rm = RateManager(h5)
    out = scratch / ("exp_ts_%d_%d" % (cid[0], cid[1]))
    try:
        rm.export_training_set(out)
    except BaseException as e:  # noqa
        rec.evaluated(dg=("export", cid, "raises"))
        rec.violation("export/raises/" + type(e).__name__,
                      "export_training_set raised %s: %s"
                      % (type(e).__name__, str(e)[:80]),
                      {"id": cid, "kind": "export"})
        return
    rm = RateManager(h5)          # container order as it is on disk now
    X, y, names = IR.load_training_set(out, which_type="all",
                                       replace_inf=False,
                                       impute_zero_rated_nan=False,
                                       remove_nan=False, ret_names=True)
    order = [(pathlib.Path(str(r["data_set"].path)).name.split("_", 1)[-1],
              r["enum"]) for r in rm.ratings]
    by_enum = {(f.name, e): (r_, i_) for e, r_, i_ in curves}
    if extra is not None:
        by_enum[(f2.name, 0)] = (extra[1], extra[0])
        ncur += 1
    case = {"id": cid, "kind": "export", "order": order,
            "incomplete entry": dropped}
    rec.check(np.atleast_1d(y).size == X.shape[0], "export/not-paired",
              "exported set has %d responses for %d sample rows"
              % (np.atleast_1d(y).size, X.shape[0]), case)
    rec.check(X.shape == (ncur, len(names)) and
              list(names) == IF.get_feature_names(), "export/shape",
              "exported set has shape %s for %d curves" % (X.shape, ncur),
              case)
    try:
        Xg, yg = rm.get_training_set(which_type="all")
    except BaseException as e:  # noqa
        rec.violation("export/get_training_set-raises/" + type(e).__name__,
                      "get_training_set raised %s" % str(e)[:80], case)
        return
    for row, en in enumerate(order):
        rate, idnt = by_enum[en]
        feats = IF.compute_features(idnt)
        rec.check(np.array_equal(Xg[row], feats, equal_nan=True) and
                  float(yg[row]) == float(rate), "export/get_training_set",
                  "get_training_set row %d differs from the curve's features "
                  "/ rating" % row, case)
        want = np.array([float("%.2e" % v) for v in feats])
        rec.event("exported curves compared")
        rec.evaluated(dg=("export", cid, en))
        rec.check(np.array_equal(X[row], want, equal_nan=True),
                  "export/features-differ",
                  lambda: "exported features of curve %s: %s, expected %s"
                  % (en, X[row].tolist(), want.tolist()), case)
        rec.check(float(np.atleast_1d(y)[row]) == float(rate),
                  "export/rating-differs",
                  "exported rating %r for curve %s, user rating %r"
                  % (np.atleast_1d(y)[row], en, rate), case)


def run_shard(rec, tier, seed, shard, nshards):
    scratch = tempfile.mkdtemp(prefix="nv_c15_")
    try:
        for i in range(N_MAT[tier]):
            matrix_case(rec, core.case_rng(seed, ID, shard, i), [shard, i],
                        scratch)
        for i in range(N_EXPORT[tier]):
            export_case(rec, core.case_rng(seed, ID, shard, 10 ** 6 + i),
                        [shard, 10 ** 6 + i], scratch)
    finally:
        shutil.rmtree(scratch, ignore_errors=True)


def replay(rec, case):
    cid = case["case"]["id"]
    scratch = tempfile.mkdtemp(prefix="nv_c15_")
    try:
        rng = core.case_rng(case["seed"], ID, cid[0], cid[1])
        if case["case"].get("kind") == "export":
            export_case(rec, rng, cid, scratch)
        else:
            matrix_case(rec, rng, cid, scratch)
    finally:
        shutil.rmtree(scratch, ignore_errors=True)
