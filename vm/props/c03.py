"""C03 - fit results depend only on data and current settings, not on history.

Shape: history + fresh-copy oracle.  Every operation of a random history is
applied to one long-lived curve; whenever the curve shows results a second
execution (fresh object + stored settings applied once) is compared bitwise.
"""
import copy

import numpy as np

from .. import core, gen, fitlab

ID = "C03"
LEVEL = "exploration"
ANCHORS = [("fit.py", "FitProperties.__setitem__"),
           ("fit.py", "FitProperties.reset"),
           ("fit.py", "IndentationFitter.fit"),
           ("indent.py", "Indentation.fit_model"),
           ("indent.py", "Indentation.apply_preprocessing"),
           ("indent.py", "Indentation.rate_quality"),
           ("indent.py", "Indentation.compute_emodulus_mindelta")]
MIN_EVALS = {"quick": 600, "thorough": 12000}
MIN_EVENTS = {"fresh-copy comparisons": 500,
              "no-op refits observed": 40,
              "operations that raised": 60}
TIMEOUT = {"quick": 900, "thorough": 3500}
N_HIST = {"quick": 26, "thorough": 650}     # per shard
RULE = ("case = one history of 3..14 operations over {apply_preprocessing, "
        "fit_model(**subset), fit_model(), fit_properties[k]=v, "
        "rate_quality, compute_emodulus_mindelta, edit-returned-parameters-"
        "and-refit, raising calls} on a synthetic or recorded curve; one "
        "oracle evaluation per operation after which results are shown; "
        "distinct by digest of (operation-type sequence so far, stored "
        "settings); non-trivial = results shown and compared")
ASSUMPTIONS = [
    "fresh copy = new object from the same raw arrays / file, stored "
    "preprocessing applied once, fit_model called once with deep copies of "
    "the stored default-settings keys",
    "bitwise comparison (NaN == NaN) of hash, success, chi_sqr, xmin, xmax, "
    "fitted parameter values/vary flags and the three fit columns",
    "when no results are shown (no hash) the curve makes no claim"]

PIPES = [["compute_tip_position"],
         ["compute_tip_position", "correct_force_offset"],
         ["compute_tip_position", "correct_tip_offset"],
         ["compute_tip_position", "correct_force_offset",
          "correct_tip_offset"],
         ["compute_tip_position", "correct_tip_offset",
          "correct_force_slope"],
         []]
OPTS = [{}, {"correct_tip_offset": {"method": "fit_constant_line"}},
        {"correct_tip_offset": {"method": "deviation_from_baseline"}},
        {"correct_force_slope": {"region": "all", "strategy": "drift"}},
        {"correct_force_slope": {"strategy": "drift", "region": "all"}},
        {"correct_tip_offset": {"method": "fit_constant_line"},
         "correct_force_slope": {"region": "all", "strategy": "drift"}},
        {"correct_force_slope": {"strategy": "drift", "region": "all"},
         "correct_tip_offset": {"method": "fit_constant_line"}}]
BAD = [{"range_type": "bogus"}, {"model_key": "nomodel"},
       {"range_x": [0, float("nan")]}, {"segment": 0.5},
       {"preprocessing": ["bogus"]},
       {"preprocessing": ["correct_tip_offset"]},
       {"optimal_fit_edelta": True, "range_type": "relative cp"}]
MODELS3 = ["hertz_para", "hertz_cone", "sneddon_spher_approx"]


def shards(tier):
    return 16


def gen_kwargs(r, allow_prep):
    kw = {}
    keys = ["model_key", "range_x", "range_type", "segment", "weight_cp",
            "gcf_k", "method", "optimal_fit_edelta",
            "optimal_fit_num_samples", "method_kws", "params_initial",
            "x_axis", "preprocessing_options"]
    if allow_prep:
        keys.append("preprocessing")
    for _ in range(int(r.integers(1, 4))):
        k = keys[int(r.integers(len(keys)))]
        if k == "model_key":
            kw[k] = MODELS3[int(r.integers(3))]
        elif k == "range_x":
            kw[k] = [[0, 0], [-1e-6, 1e-6], [-2e-6, 5e-7], [-5e-6, 5e-6],
                     [1e-6, -1e-6], (-1.5e-6, 1e-6)][int(r.integers(6))]
        elif k == "range_type":
            kw[k] = ["absolute", "relative cp"][int(r.integers(2))]
        elif k == "segment":
            kw[k] = [0, 1, "approach", "retract"][int(r.integers(4))]
        elif k == "weight_cp":
            kw[k] = [0, 1e-6, 3e-7, False][int(r.integers(4))]
        elif k == "gcf_k":
            kw[k] = [1.0, .5, .6135, 2.0, .23, 1.7, .9][int(r.integers(7))]
        elif k == "method":
            kw[k] = ["leastsq", "nelder"][int(r.integers(2))]
        elif k == "optimal_fit_edelta":
            kw[k] = bool(r.integers(2))
        elif k == "optimal_fit_num_samples":
            kw[k] = int(r.choice([7, 9]))
        elif k == "method_kws":
            # (max_nfev large enough never to abort: lmfit's result after an
            #  aborted fit is not reproducible even on identical inputs)
            # (two-key dictionaries in both key orders: equal values)
            kw[k] = [{}, {"max_nfev": 20000},
                     {"max_nfev": 20000, "ftol": 1e-10},
                     {"ftol": 1e-10, "max_nfev": 20000}][int(r.integers(4))]
        elif k == "params_initial":
            kw[k] = ("PI", float(r.uniform(.5, 2)),
                     float(r.uniform(-1e-7, 1e-7)), bool(r.integers(2)))
        elif k == "x_axis":
            kw[k] = ["tip position", "height (measured)"][int(r.integers(2))]
        elif k == "preprocessing_options":
            kw[k] = copy.deepcopy(OPTS[int(r.integers(len(OPTS)))])
        elif k == "preprocessing":
            kw[k] = copy.deepcopy(PIPES[int(r.integers(len(PIPES)))])
    return kw


def gen_op(r):
    t = ["prep", "fit", "fit", "fit", "fit0", "fit0", "edit", "rate", "emod",
         "bad", "pedit", "nudge", "pattr", "readonly", "prepd", "reorder",
         "pown"][int(r.integers(17))]
    if t == "pown":
        # the caller keeps ONE Parameters object of their own for this
        # curve, edits it in place and hands it over again and again
        return ("pown", ["E", "contact_point", "baseline"][
            int(r.integers(3))], float(r.uniform(.5, 2)),
            bool(r.random() < .3), bool(r.integers(2)))
    if t == "reorder":
        # re-assign an equal dictionary with another key order
        return ("reorder", ["method_kws", "preprocessing_options"][
            int(r.integers(2))], bool(r.integers(2)))
    if t == "readonly":
        return ("readonly", int(r.integers(5)))
    if t == "prepd":
        # same kind of request, asking for the details dictionary
        return ("prepd", copy.deepcopy(PIPES[int(r.integers(len(PIPES)))]),
                copy.deepcopy(OPTS[int(r.integers(len(OPTS)))]))
    if t == "nudge":
        # tiny change of one stored numeric setting, far below any
        # "close enough" tolerance
        return ("nudge", ["range_x0", "range_x1", "range_x01", "weight_cp",
                          "gcf_k"][int(r.integers(5))],
                float(r.choice([-1, 1]) * 10 ** r.uniform(-11, -8.1)),
                bool(r.integers(2)))
    if t == "pattr":
        # change exactly one attribute of one stored initial parameter
        return ("pattr", ["E", "contact_point", "baseline"][
            int(r.integers(3))], ["value", "min", "max", "vary"][
            int(r.integers(4))], float(10 ** r.uniform(-9, -1)),
            bool(r.integers(2)))
    if t == "prep":
        return ("prep", copy.deepcopy(PIPES[int(r.integers(len(PIPES)))]),
                copy.deepcopy(OPTS[int(r.integers(len(OPTS)))]))
    if t == "fit":
        return ("fit", gen_kwargs(r, True))
    if t == "edit":
        return ("edit", gen_kwargs(r, False))
    if t == "bad":
        return ("fit", copy.deepcopy(BAD[int(r.integers(len(BAD)))]))
    if t == "pedit":
        # documented workflow: take the initial parameters, change one
        # in place, fit again with them
        return ("pedit", ["E", "contact_point", "baseline", "R"][
            int(r.integers(4))], float(r.uniform(.3, 3)),
            bool(r.integers(2)))
    return (t,)


def materialize(idnt, kw):
    from nanite import model
    import lmfit
    kw = copy.deepcopy(kw)
    if "params_initial" in kw and isinstance(kw["params_initial"], tuple):
        _, fe, dcp, vb = kw["params_initial"]
        mk = kw.get("model_key",
                    idnt.fit_properties.get("model_key", "hertz_para"))
        if mk in model.models_available:
            p = model.models_available[mk].get_parameter_defaults()
            p["E"].value *= fe
            p["contact_point"].value = dcp
            p["baseline"].vary = vb
        else:
            p = lmfit.Parameters()
        kw["params_initial"] = p
    return kw


#: the caller's own Parameters object of the curve under observation
OWN = {}


def apply_op(idnt, op):
    try:
        if op[0] == "prep":
            idnt.apply_preprocessing(copy.deepcopy(op[1]),
                                     copy.deepcopy(op[2]))
        elif op[0] == "fit":
            idnt.fit_model(**materialize(idnt, op[1]))
        elif op[0] == "fit0":
            idnt.fit_model()
        elif op[0] == "edit":
            for k, v in sorted(materialize(idnt, op[1]).items()):
                idnt.fit_properties[k] = v
        elif op[0] == "rate":
            idnt.rate_quality()
        elif op[0] == "emod":
            idnt.compute_emodulus_mindelta()
        elif op[0] == "prepd":
            idnt.apply_preprocessing(copy.deepcopy(op[1]),
                                     copy.deepcopy(op[2]), ret_details=True)
        elif op[0] == "readonly":
            # queries that must not change what the curve shows
            [idnt.get_ancillary_parameters,
             idnt.get_rating_parameters,
             idnt.estimate_contact_point_index,
             idnt.get_initial_fit_parameters,
             idnt.estimate_optimal_mindelta][op[1]]()
        elif op[0] == "reorder":
            fp = idnt.fit_properties
            cur = fp.get(op[1])

            def rev(d):
                return {k: (rev(v) if isinstance(v, dict) else v)
                        for k, v in reversed(list(d.items()))}

            def multi(d):
                return isinstance(d, dict) and (len(d) > 1 or any(
                    multi(v) for v in d.values()))
            if not multi(cur):
                cur = {"method_kws": {"max_nfev": 20000, "ftol": 1e-10},
                       "preprocessing_options": copy.deepcopy(OPTS[-2])}[
                    op[1]]
                fp[op[1]] = copy.deepcopy(cur)
                idnt.fit_model()
            if op[2]:
                idnt.fit_model(**{op[1]: rev(cur)})
            else:
                fp[op[1]] = rev(cur)
                idnt.fit_model()
        elif op[0] == "nudge":
            fp = idnt.fit_properties
            what, d, via_fit = op[1], op[2], op[3]
            if what.startswith("range_x"):
                rx = list(fp.get("range_x", [0, 0]))
                if what in ("range_x0", "range_x01"):
                    rx[0] = rx[0] + d
                if what in ("range_x1", "range_x01"):
                    rx[1] = rx[1] + d
                key, val = "range_x", rx
            elif what == "weight_cp":
                key, val = "weight_cp", (fp.get("weight_cp", 1e-6) or 0) + \
                    abs(d)
            else:
                key, val = "gcf_k", fp.get("gcf_k", 1.0) * (1 + d * 1e3)
            if via_fit:
                idnt.fit_model(**{key: val})
            else:
                fp[key] = val
                idnt.fit_model()
        elif op[0] == "pattr":
            p = copy.deepcopy(idnt.get_initial_fit_parameters())
            name, attr, mag, via_fit = op[1], op[2], op[3], op[4]
            if name not in p:
                name = "contact_point"
            par = p[name]
            ref = abs(par.value) if par.value else 1e-7
            if attr == "value":
                par.value = par.value + mag * ref * 1e-3
            # bounds far away from any optimum: a parameter pinned to a
            # bound makes lmfit's result irreproducible in the last digits
            elif attr == "min":
                par.set(min=par.value * 1e-8 * (1 + mag) if name == "E"
                        else -abs(par.value) - 1e-3 * (1 + mag))
            elif attr == "max":
                par.set(max=par.value * 1e4 * (1 + mag) if name == "E"
                        else abs(par.value) + 1e-3 * (1 + mag))
            else:
                par.vary = not par.vary
            if via_fit:
                idnt.fit_model(params_initial=p)
            else:
                idnt.fit_properties["params_initial"] = p
                idnt.fit_model()
        elif op[0] == "pown":
            p = OWN.get(id(idnt))
            if p is None or set(p) != set(idnt.get_initial_fit_parameters()):
                p = copy.deepcopy(idnt.get_initial_fit_parameters())
                OWN.clear()
                OWN[id(idnt)] = p
                OWN["keep"] = idnt
            name = op[1]
            if name == "contact_point":
                p[name].value = p[name].value + (op[2] - 1) * 1e-7
            elif name == "baseline":
                p[name].value = p[name].value + (op[2] - 1) * 1e-11
            else:
                p[name].value = p[name].value * op[2]
            if op[3]:
                p["baseline"].vary = not p["baseline"].vary
            if op[4]:
                idnt.fit_model(params_initial=p)
            else:
                idnt.fit_properties["params_initial"] = p
                idnt.fit_model()
        elif op[0] == "pedit":
            p = idnt.get_initial_fit_parameters()
            name = op[1] if op[1] in p else "contact_point"
            if name == "contact_point":
                p[name].value = p[name].value + (op[2] - 1) * 1e-7
            elif name == "baseline":
                p[name].value = p[name].value + (op[2] - 1) * 1e-11
            else:
                p[name].value = p[name].value * op[2]
            if op[3]:
                p["baseline"].vary = not p["baseline"].vary
            idnt.fit_model(params_initial=p)
        return "ok"
    except BaseException as e:  # noqa
        return "EXC:" + type(e).__name__


def snapshot(idnt):
    fp = idnt.fit_properties
    if "hash" not in fp:
        return None
    out = {"hash": fp["hash"], "success": bool(fp.get("success")),
           "chi_sqr": fp.get("chi_sqr"), "xmin": fp.get("xmin"),
           "xmax": fp.get("xmax")}
    if "params_fitted" in fp:
        out["params_fitted"] = {k: (v.value, v.vary)
                                for k, v in fp["params_fitted"].items()}
        # a varied parameter that ends on (or next to) one of its bounds
        # makes lmfit's result irreproducible even for identical inputs
        pinned = False
        pi = fp.get("params_initial")
        for k, v in fp["params_fitted"].items():
            if not v.vary or v.expr is not None:
                continue
            ref = max(abs(v.value), abs(pi[k].value) if pi is not None
                      and k in pi else 0.0)
            for bound in (v.min, v.max):
                if np.isfinite(bound) and abs(v.value - bound) <= 1e-3 * ref:
                    pinned = True
        # the same for the fits of a plateau scan (their moduli decide
        # which plateau the final fit uses)
        if fp.get("optimal_fit_edelta") and "optimal_fit_E_array" in fp \
                and pi is not None and "E" in pi:
            ea = np.asarray(fp["optimal_fit_E_array"])
            lo, hi = pi["E"].min, pi["E"].max
            if np.any(np.abs(ea - lo) <= 1e-3 * abs(pi["E"].value)) or \
                    (np.isfinite(hi) and np.any(np.abs(ea - hi)
                                                <= 1e-3 * abs(hi))):
                pinned = True
        out["pinned"] = pinned
    for c in ["fit", "fit residuals", "fit range"]:
        if c in idnt:
            out[c] = np.array(idnt[c], copy=True)
    return out


APPROX = [0]
PINNED = [0]
RTOL = 1e-6


def _close(x, y):
    """numerically equivalent: used only after a bitwise mismatch.  Identical
    inputs can give results differing in the last bits (numpy/scipy kernels
    depend on memory alignment; lmfit amplifies that when a parameter sits on
    a bound) - observed on the unchanged tree with fresh objects."""
    if isinstance(x, np.ndarray):
        if x.shape != y.shape or x.dtype != y.dtype:
            return False
        if x.dtype.kind != "f":
            return False
        nx, ny = np.isnan(x), np.isnan(y)
        if not np.array_equal(nx, ny):
            return False
        if nx.all():
            return True
        scale = float(np.max(np.abs(y[~ny])))
        return bool(np.max(np.abs(x[~nx] - y[~ny])) <= RTOL * scale)
    if isinstance(x, (float, np.floating)) and \
            isinstance(y, (float, np.floating)):
        return abs(x - y) <= RTOL * max(abs(x), abs(y))
    if isinstance(x, dict) and isinstance(y, dict) and set(x) == set(y):
        return all(_close(x[k], y[k]) for k in x)
    if isinstance(x, tuple) and isinstance(y, tuple) and len(x) == len(y):
        return all(a == b or _close(a, b) for a, b in zip(x, y))
    return False


def same(a, b):
    """None if the snapshots agree, else the name of the first field that
    differs.  Bitwise first; a bitwise mismatch that is numerically
    equivalent (RTOL) with an identical hash is counted in APPROX, not
    reported."""
    if (a is None) != (b is None):
        return "presence"
    if a is None:
        return None
    approx = False
    if a.get("pinned") or b.get("pinned"):
        if a.get("hash") != b.get("hash"):
            return "hash"
        PINNED[0] += 1
        return None
    for k in a:
        if k not in b:
            return "missing:" + k
        x, y = a[k], b[k]
        if isinstance(x, np.ndarray):
            if not np.array_equal(x, y, equal_nan=True):
                if _close(x, y):
                    approx = True
                else:
                    return k
        elif isinstance(x, float) and isinstance(y, float) and \
                np.isnan(x) and np.isnan(y):
            continue
        elif x != y and not (x is None and y is None):
            if k != "hash" and _close(x, y):
                approx = True
            else:
                return k
    for k in b:
        if k not in a:
            return "extra:" + k
    if approx:
        APPROX[0] += 1
    return None


def stored_settings(idnt):
    from nanite.fit import FP_DEFAULT
    fp = idnt.fit_properties
    return {k: copy.deepcopy(fp[k]) for k in FP_DEFAULT if k in fp}


def not_decidable(factory, idnt, o, hist):
    """A mismatch with the fresh copy was seen.  Before it is reported:
    (1) six more fresh copies with the same stored settings - if fresh copies
    with one and the same hash disagree AMONG THEMSELVES, the optimisation is
    not reproducible for identical inputs (ill-posed fit: lmfit amplifies
    last-bit differences of numpy's SIMD kernels, which depend on where
    temporaries happen to be allocated) and "identical to a fresh copy" cannot
    be decided for this state; (2) the same history is applied to three more
    new objects - a dependence on history reproduces every time, a flip of
    the optimiser does not.  -> None (report) or the name of the event"""
    if o.get("hash") != idnt.fit_properties.get("hash"):
        return None
    fresh = [o] + [oracle(factory, idnt) for _ in range(6)]
    for f in fresh[1:]:
        if isinstance(f, str) or f.get("hash") != o.get("hash"):
            return None
        if same(fresh[0], f) is not None:
            return ("fresh copies with the same hash disagree among "
                    "themselves (fit not reproducible for identical inputs; "
                    "no verdict on that state)")
    keep = dict(OWN)
    try:
        for _ in range(3):
            j = factory()
            for op, _res in hist:
                apply_op(j, op)
            a = snapshot(j)
            oj = oracle(factory, j)
            if a is None or isinstance(oj, str) or same(a, oj) is None:
                return ("mismatch with the fresh copy not reproducible when "
                        "the same history is applied to a new object (no "
                        "verdict on that state)")
    finally:
        OWN.clear()
        OWN.update(keep)
    return None


def oracle(factory, idnt):
    """fresh object, stored settings applied once"""
    f = factory()
    st = stored_settings(idnt)
    try:
        if "preprocessing" in st:
            f.apply_preprocessing(st.pop("preprocessing"),
                                  st.pop("preprocessing_options", {}))
        f.fit_model(**st)
    except BaseException as e:  # noqa
        return "EXC:" + type(e).__name__ + ":" + str(e)[:60]
    return snapshot(f)


def classify(field, hist, idnt):
    """mechanism key of a difference (never the random values)"""
    st = idnt.fit_properties
    tags = []
    if st.get("gcf_k", 1.0) != 1.0:
        tags.append("gcf_k!=1")
    if any(h[0][0] == "pedit" for h in hist):
        tags.append("edited-returned-params")
    return "differs-from-fresh-copy/%s%s" % (
        field, ("/" + "+".join(tags)) if tags else "")


def make_factory(rng):
    """-> (factory of fresh curves, description)"""
    if rng.random() < .15:
        files = gen.recorded_single_curves()
        path = files[int(rng.integers(len(files)))]
        return (lambda: gen.load_recorded(path)), "recorded:" + path.name
    spec = fitlab.draw_curve_spec(
        rng, models=["hertz_para"], npts=(250, 400, 600),
        noise_snr=(100, 30), with_tip=False)
    spec["zmax"], spec["zmin"] = 2e-6, -2.5e-6
    rs = np.random.default_rng(spec["noise_seed"])
    data, truth = gen.make_arrays(
        rs, "hertz_para", spec["params"], cp=spec["cp"],
        baseline=spec["baseline"], n_app=spec["n"], n_ret=spec["n"],
        zmax=spec["zmax"], zmin=spec["zmin"], law="uniform",
        noise=float(np.max(gen.ref.force(
            "hertz_para", np.array([spec["zmin"]]),
            dict(spec["params"], contact_point=spec["cp"],
                 baseline=0.0))) / spec["snr"]))
    wt = bool(rng.random() < .4)
    spec["with_tip"] = wt
    return (lambda: gen.make_indentation(data, with_tip=wt)), spec


def run_history(rec, tap, rng, cid):
    factory, desc = make_factory(rng)
    idnt = factory()
    hist = []
    if rng.random() < .75:
        op = ("prep", copy.deepcopy(PIPES[int(rng.integers(1, len(PIPES) - 1))]),
              {})
        hist.append((op, apply_op(idnt, op)))
    if True:
        # keep plateau scans short (default is 100 optimisations per scan)
        op = ("edit", {"optimal_fit_num_samples": int(rng.choice([7, 9]))})
        hist.append((op, apply_op(idnt, op)))
    nops = int(rng.integers(3, 15))
    last_compared = None
    queue = []
    force_final = False
    if rng.random() < .15:
        # preprocessing settings edited directly (options alone, or a
        # pipeline alone), then a fit and its repetition
        ed = [{"preprocessing_options":
               copy.deepcopy(OPTS[int(rng.integers(len(OPTS)))])},
              {"preprocessing":
               copy.deepcopy(PIPES[int(rng.integers(len(PIPES)))])}][
            int(rng.integers(2))]
        queue = [("edit", ed), ("fit", {}), ("fit0",), ("fit0",)]
        if rng.random() < .4:
            # ... or the edited settings are then requested explicitly
            # (the request equals the stored, not the applied, settings)
            pp = copy.deepcopy(PIPES[int(rng.integers(1, len(PIPES) - 1))])
            oa, ob = [copy.deepcopy(OPTS[i]) for i in
                      rng.choice(len(OPTS), 2, replace=False)]
            queue = [("prep", pp, oa), ("fit", {}),
                     ("edit", {"preprocessing_options": ob}),
                     ("prep", copy.deepcopy(pp), copy.deepcopy(ob)),
                     ("fit", {}), ("fit0",)]
        rec.event("scripted prefix: direct preprocessing edit, fit, refit")
    elif rng.random() < .12:
        # plateau search, then only the lower range bound is changed (a
        # documented don't-care) - including to a value above the upper one
        b = float(rng.choice([1e-6, 2e-6, 5e-7, 0.0]))
        a = float(rng.choice([5e-6, 3e-6, -1e-6, -3e-6, 1.5e-6]))
        second = ("fit", {"range_x": [a, b]}) if rng.random() < .5 else \
            ("edit", {"range_x": [a, b]})
        queue = [("fit", {"optimal_fit_edelta": True, "range_x": [0, b]}),
                 second, ("fit0",), ("rate",), ("fit0",)]
        rec.event("scripted prefix: plateau search, lower range bound "
                  "changed")
    elif rng.random() < .1:
        # a request that fails inside a step for an unknown option name
        # (TypeError, after earlier steps touched the data), the bad options
        # are then taken back by a direct edit, fit
        pp = copy.deepcopy(PIPES[3])
        bad = {"correct_tip_offset": {"methode": "fit_constant_line"}} \
            if rng.random() < .5 else \
            {"correct_force_offset": {"method": "fit_constant_line"}}
        queue = [("prep", pp, {}), ("fit", {}),
                 ("prep", copy.deepcopy(pp), bad),
                 ("edit", {"preprocessing_options": {}}), ("fit0",),
                 ("fit", {})]
        rec.event("scripted prefix: option name rejected inside a step, "
                  "options taken back, fit")
    elif rng.random() < .1:
        # the stored pipeline is edited to the SAME steps in another (valid)
        # order - steps are applied in the order given, the data differ
        pa = ["compute_tip_position", "correct_tip_offset",
              "correct_force_offset", "correct_force_slope"]
        pb = ["compute_tip_position", "correct_tip_offset",
              "correct_force_slope", "correct_force_offset"]
        if rng.random() < .5:
            pa, pb = pb, pa
        oo = copy.deepcopy(OPTS[int(rng.choice([0, 3]))])
        queue = [("prep", pa, oo), ("fit", {}),
                 ("edit", {"preprocessing": pb}), ("fit0",), ("fit0",)]
        rec.event("scripted prefix: stored pipeline edited to the same "
                  "steps in another order, fit")
    elif rng.random() < .1:
        # E(delta) scan, another number of samples (plateau search off), scan
        ns2 = int(rng.choice([8, 11, 12]))
        chg = ("fit", {"optimal_fit_num_samples": ns2}) \
            if rng.random() < .5 else \
            ("edit", {"optimal_fit_num_samples": ns2})
        queue = [("fit", {"optimal_fit_edelta": False}), ("emod",), chg,
                 ("emod",)]
        nops = len(queue)
        force_final = True
        rec.event("scripted prefix: scan, sample count changed, scan")
    for step in range(nops):
        op = queue.pop(0) if queue else gen_op(rng)
        before = snapshot(idnt)
        n0 = tap.nfit()
        res = apply_op(idnt, op)
        ncalls = tap.nfit() - n0
        hist.append((op, res))
        rec.event("operations applied")
        if res != "ok":
            rec.event("operations that raised")
        after = snapshot(idnt)
        case = {"id": cid, "curve": desc, "history": hist,
                "stored_settings": stored_settings(idnt)}
        if op[0] == "fit0" and before is not None and res == "ok":
            rec.event("no-op refits observed")
            rec.evaluated(dg=("noop", [h[0][0] for h in hist],
                              stored_settings(idnt)))
            rec.check(ncalls == 0, "refit-with-unchanged-settings/optimises",
                      "fit_model() with unchanged settings ran %d "
                      "optimisations" % ncalls, case)
            d = same(before, after)
            rec.check(d is None, "refit-with-unchanged-settings/changes-"
                      "results", "repeated fit changed '%s'" % d, case)
        if after is None:
            rec.event("states without shown results (no claim)")
            continue
        state = (core.digest(stored_settings(idnt)),
                 core.digest({k: v for k, v in after.items()}))
        if state == last_compared:
            rec.event("state unchanged since last comparison (skipped)")
            continue
        last_compared = state
        n1 = dict(tap.counts)
        o = oracle(factory, idnt)
        tap.counts.update(n1)
        rec.event("fresh-copy comparisons")
        rec.evaluated(dg=([h[0][0] for h in hist], stored_settings(idnt)))
        if isinstance(o, str):
            rec.violation("results-shown-for-settings-a-fresh-copy-rejects",
                          "curve shows results (hash present) but a fresh "
                          "copy given the stored settings raises %s" % o,
                          case)
            continue
        n_ap = APPROX[0]
        n_pin = PINNED[0]
        d = same(after, o)
        if PINNED[0] != n_pin:
            rec.event("comparisons of fits pinned at a parameter bound "
                      "(hash only; lmfit irreproducible there)")
        if APPROX[0] != n_ap:
            rec.event("comparisons equal to 1e-6 but not bitwise (library "
                      "non-determinism)")
        if d is not None:
            n1 = dict(tap.counts)
            why = not_decidable(factory, idnt, o, hist)
            tap.counts.clear()
            tap.counts.update(n1)
            if why is not None:
                rec.event(why)
                continue
            rec.violation(classify(d, hist, idnt),
                          "after %d operations '%s' differs from a fresh copy "
                          "with the stored settings applied once"
                          % (len(hist), d), case)
    # ---- at the end: the E(delta) scan of the curve equals the scan of a
    # fresh copy with the stored settings (requested number of samples, same
    # depth grid) - cached scan arrays must not survive a change of settings
    if snapshot(idnt) is not None and (force_final or rng.random() < .5):
        st = stored_settings(idnt)
        f = factory()
        try:
            if "preprocessing" in st:
                f.apply_preprocessing(st.pop("preprocessing"),
                                      st.pop("preprocessing_options", {}))
            f.fit_model(**st)
            n1 = dict(tap.counts)
            ef, df = f.compute_emodulus_mindelta()
            ei, di = idnt.compute_emodulus_mindelta()
            tap.counts.update(n1)
        except BaseException as e:  # noqa
            rec.event("final scan comparison not possible (%s)"
                      % type(e).__name__)
        else:
            rec.event("final E(delta) scans compared with a fresh copy")
            case = {"id": cid, "curve": desc, "history": hist,
                    "stored_settings": stored_settings(idnt)}
            df, di = np.asarray(df), np.asarray(di)
            rec.check(df.shape == di.shape and
                      np.allclose(df, di, rtol=1e-12, atol=0),
                      "scan-differs-from-fresh-copy",
                      "E(delta) scan after the history has %d samples, a "
                      "fresh copy with the stored settings %d (or another "
                      "depth grid)" % (di.size, df.size), case)
    rec.sample({"curve": desc if isinstance(desc, str) else "synthetic n=%d"
                % desc["n"], "history": hist}, limit=2)


def _run_shard(rec, tier, seed, shard, nshards):
    with fitlab.MinimizeTap() as tap:
        for i in range(N_HIST[tier]):
            run_history(rec, tap, core.case_rng(seed, ID, shard, i),
                        [shard, i])
        rec.event("lmfit.minimize calls from nanite.fit", tap.nfit())


def replay(rec, case):
    cid = case["case"]["id"]
    with fitlab.MinimizeTap() as tap:
        run_history(rec, tap, core.case_rng(case["seed"], ID, cid[0], cid[1]),
                    cid)


def run_shard(rec, tier, seed, shard, nshards):
    state0 = core.library_state()
    try:
        _run_shard(rec, tier, seed, shard, nshards)
    finally:
        core.check_library_state(rec, state0, {"id": [shard, -1]})
