"""C17 - rating features are well-defined, bounded and independent of force
units."""
import copy

import numpy as np

from .. import core, gen, fitlab

ID = "C17"
LEVEL = "exploration"
ANCHORS = [("rate/features.py", "IndentationFeatures.compute_features"),
           ("rate/features.py", "IndentationFeatures.get_feature_names"),
           ("rate/features.py", "IndentationFeatures.is_fitted"),
           ("rate/features.py", "IndentationFeatures.is_valid"),
           ("rate/features.py", "IndentationFeatures.has_contact_point"),
           ("rate/features.py",
            "IndentationFeatures.feat_con_idt_maxima_75perc"),
           ("rate/features.py", "IndentationFeatures.feat_bin_size")]
MIN_EVALS = {"quick": 1500, "thorough": 30000}
MIN_EVENTS = {"fitted curves judged": 150,
              "unfitted / unsuccessful states judged": 150,
              "scale comparisons (2^n, bitwise)": 150,
              "retract perturbation comparisons": 150}
TIMEOUT = {"quick": 900, "thorough": 3500}
N_CASES = {"quick": 14, "thorough": 1500}     # per shard
RULE = ("case = (fitted curve: synthetic over 3 models x noise x spikes x "
        "short(<600)/long segments x segment lengths, or recorded good/bad "
        "curve) x feature subset x scale factor x retract perturbation, plus "
        "every unfitted / unsuccessful state; one oracle evaluation per "
        "compute_features call judged; distinct by digest of (curve, state, "
        "requested names/type, transform)")
ASSUMPTIONS = [
    "fraction-type = apr_flatness, apr_size; signed by definition = "
    "cp_curvature; all other continuous features are magnitude-type",
    "force-unit independence: force and fit multiplied by a common factor, "
    "contact point and abscissa untouched; 2^n bitwise, otherwise 1e-9",
    "fit-dependent = every feature except feat_bin_size"]

FRACTION = {"feat_con_apr_flatness", "feat_con_apr_size"}
SIGNED = {"feat_con_cp_curvature"}


def shards(tier):
    return 16


def clone(idnt, force_fac=1.0, perturb_retract=None, retract_keep=None):
    """value copy of a curve incl. columns and fit properties;
    retract_keep: keep only that fraction of the retract samples"""
    from nanite.indent import Indentation
    if retract_keep is not None:
        seg = np.asarray(idnt["segment"])
        nret = int(np.sum(seg == 1))
        keep = np.ones(seg.size, dtype=bool)
        idx = np.nonzero(seg == 1)[0]
        keep[idx[max(3, int(retract_keep * nret)):]] = False
        meta = dict(idnt.metadata)
        meta["point count"] = int(keep.sum())
        innate = ["force", "segment", "time", "height (measured)",
                  "tip position"]
        j = Indentation(data={k: np.array(idnt[k], copy=True)[keep]
                              for k in innate if k in idnt},
                        metadata=meta)
        for k in idnt.columns:
            if k not in innate:
                j[k] = np.array(idnt[k], copy=True)[keep]
        j._fit_properties.update(copy.deepcopy(dict(idnt.fit_properties)))
        return j
    j = Indentation(data={k: np.array(idnt[k], copy=True)
                          for k in idnt.columns_innate},
                    metadata=dict(idnt.metadata))
    for col in idnt.columns:
        if col in idnt.columns_innate and np.array_equal(
                np.asarray(idnt[col]), np.asarray(j[col]), equal_nan=True):
            continue
        j[col] = np.array(idnt[col], copy=True)
    if force_fac != 1.0:
        j["force"] = np.asarray(idnt["force"]) * force_fac
        if "fit" in idnt:
            j["fit"] = np.asarray(idnt["fit"]) * force_fac
    if perturb_retract is not None:
        r = perturb_retract
        ret = np.asarray(j["segment"]) == 1
        for col, amp in [("force", 1.0), ("tip position", 1e-7),
                         ("fit", 1.0)]:
            if col in j:
                v = np.array(j[col], copy=True)
                scale = np.nanmax(np.abs(v)) if col != "tip position" else 1
                v[ret] = v[ret] * r.uniform(.2, 3) \
                    + r.normal(0, amp * scale, int(ret.sum()))
                j[col] = v
    j._fit_properties.update(copy.deepcopy(dict(idnt.fit_properties)))
    return j


def judge_values(rec, names, vals, idnt, case, fitted):
    yax = idnt.fit_properties.get("y_axis", "force")
    seg0 = np.asarray(idnt["segment"]) == 0
    fmax = float(np.max(np.asarray(idnt[yax])[seg0])) if seg0.any() else 0.0
    for n, v in zip(names, vals):
        rec.check(bool(np.isnan(v) or np.isfinite(v)), "value/infinite/" + n,
                  "%s = %r" % (n, v), case)
        if "_bin_" in n:
            rec.check(bool(np.isnan(v) or v in (0.0, 1.0)),
                      "value/binary-not-0-1/" + n, "%s = %r" % (n, v), case)
        elif n in FRACTION:
            rec.check(bool(np.isnan(v) or 0 <= v <= 1),
                      "value/fraction-outside-0-1/" + n, "%s = %r" % (n, v),
                      case)
        elif n not in SIGNED and fmax > 0:
            rec.check(bool(np.isnan(v) or v >= 0),
                      "value/magnitude-negative/" + n,
                      "%s = %r (max approach force %r)" % (n, v, fmax), case)
        if not fitted and n != "feat_bin_size":
            rec.check(bool(np.isnan(v)), "unfitted/feature-not-nan/" + n,
                      "%s = %r without a successful fit" % (n, v), case)


def features(rec, idnt, case, **kw):
    from nanite.rate.features import IndentationFeatures as IF
    before = {c: core.fp(np.asarray(idnt[c])) for c in idnt.columns}
    fpb = core.fp_unordered(dict(idnt.fit_properties))
    try:
        out = IF.compute_features(idnt, ret_names=True, **kw)
    except BaseException as e:  # noqa
        rec.violation("raises/%s/%s" % (case.get("state", "?"),
                                        type(e).__name__),
                      "compute_features raised %s: %s in state '%s'"
                      % (type(e).__name__, str(e)[:80], case.get("state")),
                      case)
        return None
    after = {c: core.fp(np.asarray(idnt[c])) for c in idnt.columns}
    rec.check(before == after and
              fpb == core.fp_unordered(dict(idnt.fit_properties)),
              "curve-modified", "computing features changed the curve", case)
    return np.asarray(out[0]), list(out[1])


KEPT = {}


def judge_curve(rec, rng, idnt, case, fitted):
    from nanite.rate.features import IndentationFeatures as IF
    allnames = IF.get_feature_names()
    # one IndentationFeatures instance is kept for the curve object across
    # all its states: its methods must describe the current state
    inst = KEPT.get(id(idnt))
    if inst is None or inst[0] is not idnt:
        KEPT.clear()
        inst = KEPT.setdefault(id(idnt), (idnt, IF(idnt)))
    try:
        kept_vals = np.array([float(getattr(inst[1], n)())
                              for n in allnames])
        fresh_vals = np.asarray(IF.compute_features(idnt, names=allnames))
        rec.event("kept feature instance compared with a fresh evaluation")
        rec.check(np.array_equal(kept_vals, fresh_vals, equal_nan=True),
                  "kept-instance-stale",
                  lambda: "an IndentationFeatures instance created earlier "
                  "for this curve reports %s" % [
                      (n, a_, b_) for n, a_, b_ in zip(allnames, kept_vals,
                                                       fresh_vals)
                      if not (a_ == b_ or (np.isnan(a_) and np.isnan(b_)))]
                  [:3], case)
    except BaseException as e:  # noqa
        rec.event("kept instance / fresh evaluation raised %s (judged "
                  "below)" % type(e).__name__)
    # -- requested subsets and types
    wt = ["all", "binary", "continuous", ["binary", "continuous"],
          ["continuous", "binary"], ["continuous"]][int(rng.integers(6))]
    k = int(rng.choice([0, 1, 2, 3, 7]))
    names = None if k == 0 else [allnames[i] for i in
                                 rng.permutation(len(allnames))[:k]]
    case = dict(case, which_type=wt, names=names)
    res = features(rec, idnt, case, which_type=wt, names=names)
    rec.evaluated(dg=(case.get("curve"), case.get("state"), wt, names))
    if res is None:
        return
    vals, got = res
    if isinstance(wt, list):
        prefix = tuple({"binary": "feat_bin_", "continuous": "feat_con_"}[t]
                       for t in wt)
        rec.event("feature types requested as a list")
    else:
        prefix = {"all": "feat_", "binary": "feat_bin_",
                  "continuous": "feat_con_"}[wt]
    if names is None or wt != "all":
        want = sorted(n for n in (names or allnames) if n.startswith(prefix))
    else:
        want = list(names)    # documented: order of `names` is kept
    if names is not None and wt == "all":
        rec.check(sorted(got) == sorted(want), "names/not-the-requested",
                  "requested %s, got %s" % (names, got), case)
    else:
        rec.check(got == want, "names/not-sorted-requested",
                  "requested %s type %s -> names %s, expected %s"
                  % (names, wt, got, want), case)
    rec.check(len(vals) == len(got), "names/length",
              "%d values for %d names" % (len(vals), len(got)), case)
    judge_values(rec, got, vals, idnt, case, fitted)
    # each value is the feature of that name (recompute alone)
    for n, v in zip(got, vals):
        alone = features(rec, idnt, dict(case, alone=n), names=[n])
        if alone is not None:
            rec.check(np.array_equal(alone[0], [v], equal_nan=True),
                      "names/value-order", "%s: %r in the vector, %r alone"
                      % (n, v, alone[0]), case)
    if not fitted:
        rec.event("unfitted / unsuccessful states judged")
        return
    rec.event("fitted curves judged")
    full = features(rec, idnt, case)
    if full is None:
        return
    f0, nm = full
    judge_values(rec, nm, f0, idnt, case, True)
    # -- force unit independence
    e2 = int(rng.integers(-30, 31))
    for fac, exact in [(2.0 ** e2, True),
                       (float(10 ** rng.uniform(-9, 9)), False)]:
        j = clone(idnt, force_fac=fac)
        r2 = features(rec, j, dict(case, scale=fac))
        rec.evaluated(dg=(case.get("curve"), "scale", fac))
        if r2 is None:
            continue
        f1 = r2[0]
        if exact:
            rec.event("scale comparisons (2^n, bitwise)")
            rec.check(np.array_equal(f0, f1, equal_nan=True),
                      "force-scale/pow2-not-bitwise",
                      lambda: "x2^%d changes %s" % (e2, [
                          (n, a, b) for n, a, b in zip(nm, f0, f1)
                          if not (a == b or (np.isnan(a) and np.isnan(b)))]
                          [:3]), case)
        else:
            rec.event("scale comparisons (arbitrary factor)")
            samenan = np.array_equal(np.isnan(f0), np.isnan(f1))
            with np.errstate(invalid="ignore"):
                # residual features subtract fit from force: where the
                # residual is 1e-6 of the force the subtraction loses 6 digits
                # under a factor that is not a power of two (absolute floor)
                d = np.nanmax(np.abs(f1 - f0) / (np.abs(f0) + 1e-3)) \
                    if not np.all(np.isnan(f0)) else 0.0
            rec.maximum("feature change under arbitrary force scale", d)
            rec.check(samenan and d <= 1e-7, "force-scale/dependence",
                      lambda: "x%r changes %s" % (fac, [
                          (n, a, b) for n, a, b in zip(nm, f0, f1)
                          if not (a == b or (np.isnan(a) and np.isnan(b)))]
                          [:3]), case)
    # -- the features read the approach columns, the fit column and the
    # fitted contact point: every other fit property (interval actually
    # fitted, requested range, segment, weights, chi-square, hash, the other
    # fitted parameters, initial parameters) may take any value
    j = clone(idnt)
    fpj = j._fit_properties
    xa = np.asarray(idnt[idnt.fit_properties.get("x_axis", "tip position")])[
        np.asarray(idnt["segment"]) == 0]
    lo, hi = float(np.min(xa)), float(np.max(xa))
    a, b = sorted(rng.uniform(lo, hi, 2).tolist())
    pf2 = copy.deepcopy(fpj["params_fitted"])
    for k in pf2:
        if k != "contact_point":
            pf2[k].value = pf2[k].value * 1.7 + 1e-3
    for k, v in [("xmin", a), ("xmax", b), ("range_x", [a, b]),
                 ("range_type", "absolute"),
                 ("segment", 1 - int(fpj.get("segment", 0) in (1, "retract"))),
                 ("weight_cp", 3.21e-7), ("chi_sqr", 1.0), ("hash", "x" * 32),
                 ("params_fitted", pf2), ("gcf_k", 0.7),
                 ("optimal_fit_delta", a), ("method", "nelder")]:
        dict.__setitem__(fpj, k, v)
    r5 = features(rec, j, dict(case, other_fit_properties="perturbed"))
    rec.evaluated(dg=(case.get("curve"), case.get("state"), "fp-perturbed",
                      a, b))
    if r5 is not None:
        rec.event("comparisons with all other fit properties perturbed")
        rec.check(np.array_equal(f0, r5[0], equal_nan=True),
                  "fit-property-dependence",
                  lambda: "changing fit properties other than the fitted "
                  "contact point (xmin/xmax/range/segment/weights/...) "
                  "changes %s" % [
                      (n, a_, b_) for n, a_, b_ in zip(nm, f0, r5[0])
                      if not (a_ == b_ or (np.isnan(a_) and np.isnan(b_)))][:3],
                  case)
    # -- independent evaluation of the features with a closed definition
    cpv = idnt.fit_properties["params_fitted"]["contact_point"].value
    want = {"feat_bin_cp_position": float(lo <= cpv <= hi),
            "feat_bin_size": float(xa.size >= 600),
            "feat_con_apr_size": 1 - float(np.sum(xa > cpv)) / xa.size}
    if not (xa.size > 1 and xa[0] > xa[-1]):
        # no descending approach part: features undefined (NaN), see D17
        want = {}
    for n, w in want.items():
        got_v = f0[nm.index(n)]
        rec.event("features compared with their closed definition")
        rec.check(bool(got_v == w or abs(got_v - w) < 1e-12),
                  "definition/" + n, "%s = %r, definition gives %r "
                  "(contact point %r, approach abscissa [%r, %r], %d points)"
                  % (n, got_v, w, cpv, lo, hi, xa.size), case)
    # -- retract independence: number of retract samples
    for frac in (float(rng.uniform(.05, .6)),):
        j = clone(idnt, retract_keep=frac)
        r4 = features(rec, j, dict(case, retract="truncated to %.2f" % frac))
        rec.evaluated(dg=(case.get("curve"), "retract-length", frac))
        if r4 is not None:
            rec.event("retract length comparisons")
            rec.check(np.array_equal(f0, r4[0], equal_nan=True),
                      "retract-dependence/length",
                      lambda: "shortening the retract segment changes %s" % [
                          (n, a, b) for n, a, b in zip(nm, f0, r4[0])
                          if not (a == b or (np.isnan(a) and np.isnan(b)))]
                      [:3], case)
    # -- retract independence: values
    j = clone(idnt, perturb_retract=rng)
    r3 = features(rec, j, dict(case, retract="perturbed"))
    rec.evaluated(dg=(case.get("curve"), "retract"))
    if r3 is not None:
        rec.event("retract perturbation comparisons")
        rec.check(np.array_equal(f0, r3[0], equal_nan=True),
                  "retract-dependence",
                  lambda: "perturbing the retract segment changes %s" % [
                      (n, a, b) for n, a, b in zip(nm, f0, r3[0])
                      if not (a == b or (np.isnan(a) and np.isnan(b)))][:3],
                  case)


def synthetic(rng):
    spec = fitlab.draw_curve_spec(
        rng, models=["hertz_para", "hertz_cone", "sneddon_spher_approx"],
        npts=(300, 700, 1500, 2500), noise_snr=(1000, 100, 20),
        with_tip=True)
    # (a third of the curves come without a recorded tip position column)
    spec["with_tip"] = bool(rng.random() < .67)
    # approach and retract of different length (e.g. 700 + 300 points)
    spec["n_ret"] = int(spec["n"] * float(rng.choice([1, 1, .4, 1.8])))
    if rng.random() < .2:
        # the lowest tip position is not the last sample of the approach
        spec["law"] = "overshoot"
    idnt, truth = fitlab.build_curve(spec)
    spike = bool(rng.random() < .3)
    if spike:
        f = np.array(idnt._raw_data["force"], copy=True)
        k = int(rng.integers(spec["n"] // 2, spec["n"] - 5))
        f[k:k + 3] += .3 * truth["span"]
        idnt._raw_data["force"] = f
    return idnt, {"synthetic": spec, "spike": spike}


def one_case(rec, rng, cid):
    kind = rng.random()
    if kind < .25:
        files = sorted(gen.DATA.glob("fmt-jpk-fd_s*.jpk-force"))
        path = files[int(rng.integers(len(files)))]
        idnt = gen.load_recorded(path)
        desc = "recorded:" + path.name
        pipe = ["compute_tip_position", "correct_force_offset",
                "correct_tip_offset"]
    else:
        idnt, desc = synthetic(rng)
        pipe = [["compute_tip_position"],
                ["compute_tip_position", "correct_force_offset",
                 "correct_tip_offset"]][int(rng.integers(2))]
    case = {"id": cid, "curve": desc}
    # ---- states without a successful fit
    judge_curve(rec, rng, idnt, dict(case, state="fresh"), False)
    # only settings stored (nothing preprocessed, nothing fitted; the curve
    # may lack a tip position column)
    idnt.fit_properties["model_key"] = "hertz_para"
    if rng.random() < .5:
        idnt.fit_properties["weight_cp"] = 3e-7
    judge_curve(rec, rng, idnt, dict(case, state="settings-only"), False)
    if rng.random() < .5:
        # preprocessed without tip-sample separation
        try:
            idnt.apply_preprocessing(["correct_force_offset"])
        except BaseException:  # noqa
            pass
        judge_curve(rec, rng, idnt,
                    dict(case, state="preprocessed-without-tip-position"),
                    False)
    try:
        idnt.apply_preprocessing(list(pipe))
    except BaseException:  # noqa
        return
    judge_curve(rec, rng, idnt, dict(case, state="preprocessed-only"), False)
    mk = ["hertz_para", "hertz_cone", "sneddon_spher_approx"][
        int(rng.integers(3))]
    try:
        idnt.fit_model(model_key=mk, range_x=[1e-3, 1.001e-3])
    except BaseException:  # noqa
        rec.event("fit request raised: the curve left behind is judged")
    if not idnt.fit_properties.get("success", True):
        judge_curve(rec, rng, idnt, dict(case, state="unsuccessful-fit"),
                    False)
    # multi-pass fit whose first pass succeeds and whose last pass has too
    # few points: success False although an earlier pass left parameters
    try:
        idnt.fit_model(model_key=mk, range_type="relative cp",
                       range_x=[float(rng.uniform(5e-4, 2e-3)), 3e-3])
    except BaseException:  # noqa
        rec.event("fit request raised: the curve left behind is judged")
    if not idnt.fit_properties.get("success", True):
        judge_curve(rec, rng, idnt,
                    dict(case, state="unsuccessful-multi-pass-fit"),
                    False)
    idnt.fit_properties["range_type"] = "absolute"
    # ---- fitted
    kw = dict(model_key=mk, range_x=[0, 0])
    if rng.random() < .3:
        kw["segment"] = 1
    if rng.random() < .3:
        kw["weight_cp"] = 0
    try:
        idnt.fit_model(**kw)
    except BaseException as e:  # noqa
        rec.event("fit raised " + type(e).__name__)
        return
    if idnt.fit_properties.get("success"):
        judge_curve(rec, rng, idnt, dict(case, state="fitted", fit=kw), True)
    # ---- unusual but legitimate fits: modulus / contact point / baseline
    # held at a value far off, narrow absolute interval, other abscissa: the
    # fitted contact point moves towards either end of the approach, the
    # indentation or baseline part shrinks to a few samples
    xa = np.asarray(idnt["tip position"])[np.asarray(idnt["segment"]) == 0] \
        if "tip position" in idnt else np.zeros(1)
    turned = bool(xa.size > 3 and int(np.argmin(xa)) < xa.size - 1)
    for io in range(3 if turned else 2):
        odd = fitlab.draw_odd_fit(rng)
        if io == 2:
            # the approach turns round before its last sample: contact point
            # held among the deepest samples
            odd = dict(odd, kind="cp-fixed-deep-end", u=.5 * odd["u"])
            rec.event("deep-end fits on approach parts that turn round "
                      "before their last sample")
        try:
            fitlab.odd_fit(idnt, mk, odd)
        except BaseException as e:  # noqa
            rec.event("unusual fit raised " + type(e).__name__)
        else:
            if idnt.fit_properties.get("success"):
                rec.event("unusual fit judged: " + odd["kind"])
                judge_curve(rec, rng, idnt,
                            dict(case, state="fitted-unusual", odd=odd), True)
    if rng.random() < .4:
        # ---- preprocessed again without tip-sample separation after the
        # fit: results dropped, the abscissa of the fit may be gone
        try:
            idnt.apply_preprocessing(["correct_force_offset"])
        except BaseException:  # noqa
            pass
        judge_curve(rec, rng, idnt,
                    dict(case, state="reprocessed-without-tip-position-"
                         "after-fit"), False)
        rec.sample(case, limit=2)
        return
    # ---- settings edited after the fit (results dropped)
    idnt.fit_properties["weight_cp"] = 1.2345e-7
    judge_curve(rec, rng, idnt, dict(case, state="settings-edited-after-fit"),
                False)
    rec.sample(case, limit=2)


def run_shard(rec, tier, seed, shard, nshards):
    for i in range(N_CASES[tier]):
        one_case(rec, core.case_rng(seed, ID, shard, i), [shard, i])


def replay(rec, case):
    cid = case["case"]["id"]
    one_case(rec, core.case_rng(case["seed"], ID, cid[0], cid[1]), cid)
