"""C04 - reported fit outputs are mutually consistent."""
import copy

import numpy as np

from .. import core, gen, ref, fitlab, hmodels

ID = "C04"
LEVEL = "exploration"
ANCHORS = [("fit.py", "IndentationFitter._fit"),
           ("fit.py", "IndentationFitter.fit"),
           ("model/residuals.py", "compute_contact_point_weights"),
           ("model/residuals.py", "residual"),
           ("indent.py", "Indentation.fit_model")]
MIN_EVALS = {"quick": 1500, "thorough": 30000}
MIN_EVENTS = {"successful fits judged": 1000, "unsuccessful fits judged": 30,
              "fixed parameters judged": 1000,
              "expression parameters judged": 30}
TIMEOUT = {"quick": 900, "thorough": 3500}
N_CASES = {"quick": 110, "thorough": 2400}     # per shard
METHODS = ["leastsq", "leastsq", "nelder", "least_squares", "powell",
           "lbfgsb", "cobyla"]
RULE = ("case = (curve: shipped or expression-constrained harness model, "
        "noise, or a recorded curve) x (segment, range incl. 0-3 point "
        "selections, range type absolute / relative cp / plateau search, "
        "weight_cp, gcf_k, minimiser incl. ones that stop early, random "
        "fixed/varied subset); distinct by digest of curve spec + settings; "
        "non-trivial = an optimisation ran or the too-few-points guard fired")
ASSUMPTIONS = [
    "model(reported parameters) is evaluated with the independent reference "
    "formulas for shipped models and with the module's own user function for "
    "harness models; tolerance 1e-12 of the force scale",
    "residual and chi-square relations to 1e-9 relative (the internal "
    "contact point is k x reported, reproducible to 1 ulp)",
    "initial parameters are captured by value before the call"]


def shards(tier):
    return 16


def recorded(rng):
    files = gen.recorded_single_curves()
    path = files[int(rng.integers(len(files)))]
    idnt = gen.load_recorded(path)
    idnt.apply_preprocessing(["compute_tip_position", "correct_force_offset",
                              "correct_tip_offset"])
    return idnt, path.name


def one_case(rec, tap, rng, cid):
    from nanite import model
    kind = rng.random()
    desc = {"id": cid}
    if kind < .08:
        idnt, name = recorded(rng)
        mk = gen.SHIPPED[int(rng.integers(4))]
        p0 = idnt.get_initial_fit_parameters(model_key=mk)
        p0 = copy.deepcopy(p0)
        desc.update(curve="recorded:" + name, model=mk)
        xall = np.asarray(idnt["tip position"])
    else:
        if kind < .2:
            # expression constrained harness model on a paraboloid curve
            spec = fitlab.draw_curve_spec(rng, models=["hertz_para"],
                                          npts=(150, 400, 1000),
                                          noise_snr=(0, 100, 30))
            idnt, truth = fitlab.build_curve(spec)
            mk = ["hm_expr", "hm_own"][int(rng.integers(2))]
            p0 = model.models_available[mk].get_parameter_defaults()
            p0["E"].value = truth["full"]["E"] * .5
            p0["virtual_parameter"].value = truth["full"]["E"] * .3
            p0["R"].value = truth["full"]["R"]
            p0["nu"].value = truth["full"]["nu"]
            p0["contact_point"].value = truth["full"]["contact_point"] \
                + rng.uniform(-1e-7, 1e-7)
        else:
            spec = fitlab.draw_curve_spec(rng, npts=(60, 150, 400, 1000),
                                          noise_snr=(0, 300, 100, 30, 10),
                                          clifford_identifiable=False)
            idnt, truth = fitlab.build_curve(spec)
            mk = spec["model"]
            p0, ek = fitlab.initial_params(rng, spec, truth)
        desc.update(curve=spec, model=mk)
        xall = np.asarray(idnt["tip position"])
    # random fixed / varied subset (never everything fixed)
    names = [n for n in p0 if p0[n].expr is None]
    for n in names:
        if rng.random() < .25:
            p0[n].vary = not p0[n].vary
    if not any(p0[n].vary for n in names):
        p0["contact_point"].vary = True
    if rng.random() < .3 and p0["contact_point"].vary:
        # finite bounds (measured units) around the initial contact point
        c0 = p0["contact_point"].value
        p0["contact_point"].set(min=c0 - float(rng.uniform(.05e-6, 1e-6)),
                                max=c0 + float(rng.uniform(.05e-6, 1e-6)))
    seg = int(rng.integers(2))
    k = float(rng.choice([1, 1, .5, 2, .6135]))
    wcp = [0, False, 1e-7, 5e-7, 2e-6][int(rng.integers(5))]
    method = METHODS[int(rng.integers(len(METHODS)))]
    kw = dict(model_key=mk, params_initial=p0, segment=seg, gcf_k=k,
              weight_cp=wcp, method=method)
    if mk == "hertz_para" and rng.random() < .35:
        # the default model need not be named: the explicit initial
        # parameters are used all the same
        kw.pop("model_key")
        rec.event("fits of the default model without naming it")
    mode = rng.random()
    xs = xall[np.asarray(idnt["segment"]) == seg]
    if mode < .25:
        pass                                  # full segment
    elif mode < .5:
        a, b = sorted(rng.uniform(xs.min(), xs.max(), 2))
        kw["range_x"] = [float(a), float(b)]
    elif mode < .65:
        # few-point selections: 0..6 points around a sample
        j = int(rng.integers(xs.size))
        w = int(rng.integers(0, 7))
        sel = np.sort(xs)[max(0, j - w):j + 1]
        if w == 0:
            lo = float(np.sort(xs)[j]) + 1e-12
            kw["range_x"] = [lo, lo + 1e-13]
        else:
            kw["range_x"] = [float(sel.min()), float(sel.max())]
    elif mode < .82:
        kw["range_type"] = "relative cp"
        kw["range_x"] = [float(-rng.uniform(.3e-6, 3e-6)),
                         float(rng.uniform(1e-7, 2e-6))]
    else:
        if seg == 0 and "E" in p0 and p0["E"].vary:
            kw["optimal_fit_edelta"] = True
            kw["optimal_fit_num_samples"] = int(rng.integers(7, 12))
            if rng.random() < .5:
                # far more scan samples than points in the indentation part:
                # shallow scan fits cannot be carried out, the plateau found
                # among the repeated entries may leave the final fit without
                # points (unsuccessful although earlier passes succeeded)
                kw["optimal_fit_num_samples"] = int(rng.integers(40, 160))
                rec.event("plateau searches with more scan samples than "
                          "indentation points")
            kw["range_x"] = [0, float(rng.choice([np.inf, 5e-6, 1e-6]))]
            kw["method"] = method = "leastsq"
    scan_after = bool(rng.random() < .2 and seg == 0 and "E" in p0
                      and "optimal_fit_edelta" not in kw)
    if scan_after:
        kw["optimal_fit_num_samples"] = 7
    desc.update(settings={a_: b_ for a_, b_ in kw.items()
                          if a_ != "params_initial"},
                init={n: [p0[n].value, p0[n].vary] for n in p0})
    init = copy.deepcopy(p0)
    tap.clear()
    n0 = tap.nfit()
    try:
        idnt.fit_model(**kw)
    except BaseException as e:  # noqa
        rec.evaluated(dg=desc, nontrivial=False)
        rec.event("fit_model raised %s" % type(e).__name__)
        return
    ran = tap.nfit() - n0
    rec.evaluated(dg=(desc["curve"], desc["settings"], desc["init"]),
                  nontrivial=ran > 0 or not
                  idnt.fit_properties.get("success", False))
    rec.event("fits with method " + method)
    rec.event("fits with gcf_k != 1" if k != 1 else "fits with gcf_k == 1")
    fitlab.check_consistency(rec, idnt, desc, init=init)
    if kw.get("optimal_fit_edelta") and \
            not idnt.fit_properties.get("success", False):
        rec.event("unsuccessful plateau-search fits judged")
    if scan_after and idnt.fit_properties.get("success"):
        # an E(delta) scan of the fitted curve (many throw-away fits) leaves
        # the reported outputs of the fit as they are
        try:
            idnt.compute_emodulus_mindelta()
        except BaseException as e:  # noqa
            rec.event("scan after the fit raised " + type(e).__name__)
        else:
            rec.event("fits judged again after an E(delta) scan")
            rec.evaluated(dg=(desc["curve"], desc["settings"], "after-scan"))
            fitlab.check_consistency(rec, idnt, dict(desc, after="scan"),
                                     init=init, prefix="after-scan/")
    if rng.random() < .35 and idnt.fit_properties.get("success"):
        # second fit of the SAME object: one fixed parameter changed by a
        # tiny amount (far below any 'close enough' tolerance in SI units)
        p2 = copy.deepcopy(init)
        fixed = [n for n in p2 if not p2[n].vary and p2[n].expr is None]
        if fixed:
            n_ = fixed[int(rng.integers(len(fixed)))]
            v = p2[n_].value
            dv = {"contact_point": 3e-9, "baseline": 2e-12}.get(
                n_, abs(v) * 1e-7 if v else 1e-12)
            p2[n_].value = float(np.clip(v + dv, p2[n_].min, p2[n_].max))
            if p2[n_].value != v:
                desc2 = dict(desc, second_fit={"changed": n_, "from": v,
                                               "to": p2[n_].value})
                init2 = copy.deepcopy(p2)
                try:
                    idnt.fit_model(params_initial=p2)
                except BaseException as e:  # noqa
                    rec.event("second fit raised %s" % type(e).__name__)
                else:
                    rec.evaluated(dg=(desc["curve"], desc["settings"],
                                      desc2["second_fit"]))
                    rec.event("second fits of the same object judged")
                    fitlab.check_consistency(rec, idnt, desc2, init=init2,
                                             prefix="second-fit/")
    if rng.random() < .3 and isinstance(desc["curve"], dict) and \
            idnt.fit_properties.get("success") and wcp:
        # two different curves of the same length fitted back to back with
        # identical settings and the contact point held at the same value
        # (e.g. 0 after the tip offset correction): each result has to be
        # consistent with its own abscissa
        pfix = copy.deepcopy(init)
        pfix["contact_point"].set(
            value=idnt.fit_properties["params_fitted"]["contact_point"].value,
            vary=False, min=-np.inf, max=np.inf)
        if not any(pfix[n].vary for n in pfix if pfix[n].expr is None):
            for n in pfix:
                if n in ("E", "E_L"):
                    pfix[n].vary = True
        spec2 = dict(desc["curve"])
        spec2["law"] = [l for l in ("uniform", "jitter", "quadratic")
                        if l != spec2["law"]][int(rng.integers(2))]
        spec2["zmax"] = spec2["zmax"] * float(rng.uniform(.7, 1.4))
        spec2["noise_seed"] = int(rng.integers(2 ** 31))
        sib, _ = fitlab.build_curve(spec2)
        kw2 = {a_: b_ for a_, b_ in kw.items() if a_ != "params_initial"}
        kw2.pop("optimal_fit_edelta", None)
        for cur, tag in ((idnt, "first"), (sib, "second")):
            pin = copy.deepcopy(pfix)
            try:
                cur.fit_model(params_initial=pin, **copy.deepcopy(kw2))
            except BaseException as e:  # noqa
                rec.event("back-to-back fit raised %s" % type(e).__name__)
                continue
            dsc = dict(desc, back_to_back=tag, sibling=spec2)
            rec.evaluated(dg=(spec2, desc["settings"], tag))
            rec.event("back-to-back fits of sibling curves judged")
            fitlab.check_consistency(rec, cur, dsc,
                                     init=copy.deepcopy(pfix),
                                     prefix="back-to-back/")
    rec.sample(desc, limit=3)


def plateau_fail_case(rec, rng, cid):
    """plateau search on a coarsely sampled curve with many scan samples:
    scan fits succeed, the final fit may have too few points - then nothing
    of the earlier passes may be reported"""
    mk = ["hertz_para", "hertz_cone", "hertz_pyr3s"][int(rng.integers(3))]
    prm = gen.draw_params(rng, mk)
    n = int(rng.integers(35, 90))
    zmin = -float(rng.uniform(.6, 1.6) * 1e-6)
    sigma = float(rng.choice([0, 0, 1e-11]))
    data, truth = gen.make_arrays(rng, mk, prm, cp=0.0, n_app=n, n_ret=n,
                                  zmax=4e-6, zmin=zmin, noise=sigma)
    idnt = gen.make_indentation(data)
    ns = int(rng.integers(25, 160))
    kw = dict(model_key=mk, optimal_fit_edelta=True,
              optimal_fit_num_samples=ns,
              params_initial=gen.nanite_params(mk, prm),
              gcf_k=float(rng.choice([1.0, .5])))
    kw["params_initial"]["E"].value *= float(rng.uniform(.5, 2))
    desc = {"id": cid, "kind": "plateau-search on a coarse curve",
            "model": mk, "params": prm, "n": n, "zmin": zmin, "noise": sigma,
            "settings": {a: b for a, b in kw.items()
                         if a != "params_initial"}}
    init = copy.deepcopy(kw["params_initial"])
    try:
        idnt.fit_model(**kw)
    except BaseException as e:  # noqa
        rec.event("plateau search on a coarse curve raised "
                  + type(e).__name__)
        return
    rec.evaluated(dg=(mk, prm, n, zmin, ns, sigma))
    rec.event("plateau searches on coarse curves judged")
    if not idnt.fit_properties.get("success", False):
        rec.event("unsuccessful plateau-search fits judged")
    fitlab.check_consistency(rec, idnt, desc, init=init,
                             prefix="coarse-plateau/")
    # a following ordinary fit of the same object is consistent again
    try:
        idnt.fit_model(optimal_fit_edelta=False)
    except BaseException as e:  # noqa
        rec.event("fit after a plateau search raised " + type(e).__name__)
        return
    fitlab.check_consistency(rec, idnt, dict(desc, then="ordinary fit"),
                             init=init, prefix="after-coarse-plateau/")


def run_repository_suite(rec):
    """the repository's own tests as an extra workload under the monitors"""
    import json
    import os
    import subprocess
    import sys
    import tempfile
    fd, out = tempfile.mkstemp(suffix=".json")
    os.close(fd)
    env = dict(os.environ, NANITE_VERIF="1", NV_PLUGIN_OUT=out)
    try:
        p = subprocess.run([sys.executable, "-m", "pytest",
                            str(core.REPO / "tests"), "-p",
                            "vm.pytest_plugin", "-p", "no:cacheprovider",
                            "-q", "-x"], cwd=str(core.REPO), env=env,
                           capture_output=True, text=True, timeout=1500)
        res = json.load(open(out))
    except BaseException as e:  # noqa
        rec.event("repository suite under monitors: not available (%s)"
                  % type(e).__name__)
        return
    finally:
        if os.path.exists(out):
            os.unlink(out)
    rec.note("repository suite under monitors", p.stdout.strip()
             .splitlines()[-1] if p.stdout.strip() else "?")
    rec.evaluations += res["evaluations"]
    rec.digests.update(res["digests"])
    for k, v in res["events"].items():
        rec.event(k, v)
    for v in res["violations"]:
        rec.violation(v["key"], v["what"], v["case"])
    for r in res["inconclusive"]:
        rec.inconclusive_because(r)


def run_shard(rec, tier, seed, shard, nshards):
    if tier == "thorough" and shard == 0:
        run_repository_suite(rec)
    mods = hmodels.register_all()
    try:
        with fitlab.MinimizeTap() as tap:
            for i in range(N_CASES[tier]):
                one_case(rec, tap, core.case_rng(seed, ID, shard, i),
                         [shard, i])
                if i % 8 == 0:
                    plateau_fail_case(rec, core.case_rng(seed, ID, shard,
                                                         10 ** 6 + i),
                                      [shard, 10 ** 6 + i])
            rec.event("lmfit.minimize calls from nanite.fit", tap.nfit())
    finally:
        hmodels.deregister_all(mods)


def replay(rec, case):
    cid = case["case"]["id"]
    mods = hmodels.register_all()
    try:
        with fitlab.MinimizeTap() as tap:
            if cid[1] >= 10 ** 6:
                plateau_fail_case(rec, core.case_rng(case["seed"], ID,
                                                     cid[0], cid[1]), cid)
            else:
                one_case(rec, tap, core.case_rng(case["seed"], ID, cid[0],
                                                 cid[1]), cid)
    finally:
        hmodels.deregister_all(mods)
