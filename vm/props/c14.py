"""C14 - preprocessing order rules / autosort (exhaustive over the step set)."""
import itertools

import numpy as np

from .. import core, gen

ID = "C14"
LEVEL = "exploration"
EXHAUSTIVE = True
ANCHORS = [("preproc.py", "autosort"), ("preproc.py", "check_order"),
           ("preproc.py", "available"), ("preproc.py", "apply")]
MIN_EVALS = {"quick": 1957, "thorough": 1957}
TIMEOUT = {"quick": 600, "thorough": 1800}
RULE = ("every ordered selection (all subsets x all permutations) of the "
        "shipped preprocessing steps is one case; distinct = distinct "
        "ordered tuple; non-trivial = length >= 1; plus lists with unknown "
        "identifiers")
ASSUMPTIONS = [
    "the validity predicate of the harness re-reads steps_required/"
    "steps_optional from the registered step functions (declarations are "
    "the specification)",
    "preproc.apply acceptance is probed on one small synthetic curve; steps "
    "themselves are executed for real"]

NSHARDS = 16


def shards(tier):
    return NSHARDS


def rules():
    from nanite import preproc
    req, opt = {}, {}
    for f in preproc.PREPROCESSORS:
        req[f.identifier] = list(f.steps_required or [])
        opt[f.identifier] = list(f.steps_optional or [])
    return req, opt


def closed(sel, req):
    s = set(sel)
    return all(set(req[p]) <= s for p in sel)


def valid_order(sel, req, opt):
    pos = {p: i for i, p in enumerate(sel)}
    for p in sel:
        for r in req[p]:
            if r not in pos or pos[r] > pos[p]:
                return False
        for o in opt[p]:
            if o in pos and pos[o] > pos[p]:
                return False
    return True


def apply_ok(sel, req):
    """statement: accepted iff every step's required steps occur earlier"""
    for i, p in enumerate(sel):
        if not set(req[p]) <= set(sel[:i]):
            return False
    return True


def all_selections(ids):
    out = []
    for n in range(0, len(ids) + 1):
        for sub in itertools.combinations(ids, n):
            for perm in itertools.permutations(sub):
                out.append(list(perm))
    return out


def _outcome(f, *a):
    try:
        return ("ok", f(*a))
    except BaseException as e:  # noqa
        return ("exc", type(e).__name__, str(e)[:120])


def check_selection(rec, sel, req, opt, curve_factory, shared=None):
    from nanite import preproc
    case = {"selection": sel}
    rec.evaluated(dg="|".join(sel), nontrivial=len(sel) > 0)
    isvalid = valid_order(sel, req, opt)
    # check_order accepts exactly the valid ones (closed or not: a missing
    # required step makes .index() raise ValueError as well)
    oc = _outcome(preproc.check_order, list(sel))
    if closed(sel, req):
        rec.event("closed selections")
        rec.check((oc[0] == "ok") == isvalid, "check_order/disagrees",
                  "check_order %s but reference validity is %s for %s"
                  % (oc, isvalid, sel), case)
        inp = list(sel)
        so = _outcome(preproc.autosort, inp)
        rec.check(inp == sel, "autosort/mutates-argument",
                  "autosort changed its argument %s -> %s" % (sel, inp), case)
        if so[0] != "ok":
            rec.violation("autosort/raises-on-closed-selection",
                          "autosort raised %s for requirement-closed %s"
                          % (so[1:], sel), case)
        else:
            res = so[1]
            rec.check(sorted(res) == sorted(sel), "autosort/not-a-permutation",
                      "autosort(%s) = %s" % (sel, res), case)
            rec.check(valid_order(res, req, opt), "autosort/result-invalid",
                      "autosort(%s) = %s violates the order rules"
                      % (sel, res), case)
            again = _outcome(preproc.autosort, list(res))
            rec.check(again == ("ok", res), "autosort/not-idempotent",
                      "autosort(autosort(%s)) = %s != %s" % (sel, again, res),
                      case)
            if isvalid:
                rec.event("already valid selections")
                rec.check(res == sel, "autosort/changes-valid-order",
                          "valid %s reordered to %s" % (sel, res), case)
    else:
        rec.check(oc[0] == "exc", "check_order/accepts-unclosed",
                  "check_order accepted %s lacking required steps" % sel, case)
    # apply acceptance
    idnt = curve_factory()
    ao = _outcome(lambda: preproc.apply(idnt, identifiers=list(sel),
                                        options={}))
    want = apply_ok(sel, req)
    rec.event("apply accepted" if ao[0] == "ok" else "apply rejected")
    rec.check((ao[0] == "ok") == want, "apply/acceptance",
              "preproc.apply %s for %s, expected %s"
              % (ao, sel, "accept" if want else "reject"), case)
    if ao[0] == "exc":
        rec.check(ao[1] in ("ValueError", "KeyError"), "apply/exception-type",
                  "apply raised %s for %s" % (ao[1:], sel), case)
    if shared is not None:
        # the same rule through Indentation.apply_preprocessing on ONE curve
        # object that has seen the other orderings of these steps before
        so2 = _outcome(lambda: shared.apply_preprocessing(list(sel), {}))
        rec.event("requests on a curve that saw other orderings before")
        rec.check((so2[0] == "ok") == want, "apply/acceptance-on-used-curve",
                  "Indentation.apply_preprocessing %s for %s on a curve used "
                  "before (previous pipeline %s), expected %s"
                  % (so2[:2], sel, list(PREVIOUS),
                     "accept" if want else "reject"),
                  dict(case, previous=list(PREVIOUS)))
        PREVIOUS[:] = list(sel) if so2[0] == "ok" else []
        # ... and on a new curve whose remembered pipeline (public attribute)
        # is one that cannot be applied: what is REQUESTED decides
        cur = curve_factory()
        cur.preprocessing = list(UNAPPLICABLE[0])
        so3 = _outcome(lambda: cur.apply_preprocessing(list(sel), {}))
        rec.event("requests on a curve whose attribute holds an "
                  "unapplicable pipeline")
        rec.check((so3[0] == "ok") == want,
                  "apply/acceptance-depends-on-attribute",
                  "idnt.preprocessing = %s; apply_preprocessing(%s, {}) %s, "
                  "expected %s" % (UNAPPLICABLE[0], sel, so3[:2],
                                   "accept" if want else "reject"),
                  dict(case, attribute=list(UNAPPLICABLE[0])))
        if not want and sel:
            UNAPPLICABLE[0] = list(sel)


PREVIOUS = []
UNAPPLICABLE = [["correct_tip_offset", "compute_tip_position"]]


def run_shard(rec, tier, seed, shard, nshards):
    from nanite import preproc
    req, opt = rules()
    ids = sorted(req)
    sels = all_selections(ids)
    nclosed = sum(closed(s, req) for s in sels)
    rec.note("ordered selections", len(sels))
    rec.note("requirement-closed selections", nclosed)
    if len(ids) != 6 or len(sels) != 1957 or nclosed != 1424:
        rec.inconclusive_because(
            "step set changed: %d steps, %d selections, %d closed (property "
            "speaks about 6/1957/1424)" % (len(ids), len(sels), nclosed))
    rng = core.case_rng(seed, ID, 0, 0)
    data, _ = gen.make_arrays(rng, "hertz_para", {"E": 3000., "R": 1e-5,
                                                  "nu": .5},
                              n_app=120, n_ret=120, noise=2e-11)

    def factory():
        return gen.make_indentation(data, with_tip=False)

    import zlib
    shared = factory()
    for i, sel in enumerate(sels):
        # all orderings of one subset are judged in the SAME process (a
        # result that depends on earlier calls with the same steps would
        # otherwise go unnoticed)
        if zlib.crc32("|".join(sorted(sel)).encode()) % nshards != shard:
            continue
        check_selection(rec, sel, req, opt, factory, shared)
        if len(sel) == 5:
            rec.sample({"selection": sel,
                        "autosort": _outcome(preproc.autosort, list(sel))})
    if shard == 0:
        # available() is itself valid and complete
        av = preproc.available()
        rec.evaluated(dg="available", nontrivial=True)
        rec.check(sorted(av) == ids and valid_order(av, req, opt),
                  "available/invalid", "available() = %s" % av, {"av": av})
        # unknown identifiers
        r2 = core.case_rng(seed, ID, 0, 1)
        for j in range(200 if tier == "quick" else 2000):
            sel = list(sels[int(r2.integers(len(sels)))])
            bad = ["bogus", "", "Compute_tip_position", "correct_tip_offset ",
                   "smooth"][int(r2.integers(5))]
            sel.insert(int(r2.integers(len(sel) + 1)), bad)
            case = {"selection": sel}
            rec.evaluated(dg="|".join(sel))
            for name, f in [("autosort", preproc.autosort),
                            ("check_order", preproc.check_order)]:
                oc = _outcome(f, list(sel))
                # rejection = any exception; the KeyError type is demanded
                # only if nothing else is wrong with the list
                base = [x for x in sel if x != bad]
                okbase = closed(base, req) and valid_order(base, req, opt)
                rec.check(oc[0] == "exc" and
                          (oc[1] == "KeyError" or not okbase),
                          "unknown-id/" + name,
                          "%s(%s) -> %s" % (name, sel, oc), case)
            # apply: unknown identifier is rejected (KeyError, or ValueError
            # if an earlier step's prerequisite is missing)
            ao = _outcome(lambda: preproc.apply(factory(), identifiers=sel,
                                                options={}))
            rec.check(ao[0] == "exc", "unknown-id/apply-accepts",
                      "apply accepted %s" % sel, case)
            # the same list as the curve's remembered pipeline (public
            # attribute), requested twice: rejected both times
            cur = factory()
            outs = []
            for _ in range(2):
                cur.preprocessing = list(sel)
                outs.append(_outcome(lambda: cur.apply_preprocessing())[0])
            rec.event("unknown identifiers requested twice through the "
                      "curve's attribute")
            rec.check(outs == ["exc", "exc"],
                      "unknown-id/accepted-on-repeat",
                      "idnt.preprocessing = %s; apply_preprocessing() twice "
                      "-> %s" % (sel, outs), case)
            # ... while an explicit request decides on its own
            cur = factory()
            cur.preprocessing = list(sel)
            good = list(sels[int(r2.integers(len(sels)))])
            if r2.random() < .3:
                good = []
            og = _outcome(lambda: cur.apply_preprocessing(list(good), {}))
            rec.check((og[0] == "ok") == apply_ok(good, req),
                      "apply/acceptance-depends-on-attribute",
                      "idnt.preprocessing = %s; apply_preprocessing(%s, {}) "
                      "%s" % (sel, good, og[:2]), dict(case, request=good))
            first_bad = sel.index(bad)
            if apply_ok(sel[:first_bad], req) and ao[0] == "exc":
                rec.check(ao[1] == "KeyError", "unknown-id/apply-type",
                          "apply(%s) -> %s" % (sel, ao), case)


def replay(rec, case):
    req, opt = rules()
    sel = case["case"]["selection"] if "selection" in (case.get("case") or {}) \
        else case["case"]["av"]
    rng = core.case_rng(0, ID, 0, 0)
    data, _ = gen.make_arrays(rng, "hertz_para", {"E": 3000., "R": 1e-5,
                                                  "nu": .5},
                              n_app=120, n_ret=120, noise=2e-11)
    if all(s in req for s in sel):
        check_selection(rec, sel, req, opt,
                        lambda: gen.make_indentation(data, with_tip=False))
