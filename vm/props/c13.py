"""C13 - every registered model obeys the structural model contract."""
import numpy as np

from .. import core, gen, hmodels, ref

ID = "C13"
LEVEL = "exploration"
ANCHORS = [("model/residuals.py", "model_direction_agnostic"),
           ("model/residuals.py", "residual"),
           ("model/residuals.py", "compute_contact_point_weights"),
           ("model/core.py", "NaniteFitModel._module_autocomplete"),
           ("model/residuals.py", "get_default_modeling_wrapper"),
           ("model/residuals.py", "get_default_residuals_wrapper")]
MIN_EVALS = {"quick": 3000, "thorough": 60000}
MIN_EVENTS = {"order-sensitive user function calls": 100}
TIMEOUT = {"quick": 600, "thorough": 3000}
N_CASES = {"quick": 400, "thorough": 60000}     # per shard
RULE = ("case = (registered model incl. 6 harness models, parameter vector, "
        "dyadic abscissa array, orientation); every case evaluates 8 "
        "relations (order/shape, user function sees approach order, "
        "translation, baseline, modulus scaling, continuity, monotony, "
        "residual definition); distinct by digest of (model, params, array)")
ASSUMPTIONS = [
    "abscissae, contact point and shifts lie on a 2^-40 m grid so that "
    "translation is exact in float64 (bitwise comparison is then legitimate)",
    "moduli are scaled by powers of two (exact); with non-zero baseline the "
    "comparison allows 4 eps of the largest magnitude involved",
    "third-party models found in the registry (nanite_model_sneddon_spher) "
    "are logged, not judged"]

Q = 2.0 ** -40
EPS = np.finfo(float).eps


def shards(tier):
    return 16


def draw(rng, mk):
    if mk in gen.SHIPPED:
        prm = gen.draw_params(rng, mk)
    elif mk in ("hm_order", "hm_sig", "hm_long"):
        prm = gen.draw_params(rng, "hertz_para")
    elif mk == "hm_anc":
        prm = gen.draw_params(rng, "hertz_cone")
    else:
        prm = {"E": float(10 ** rng.uniform(2, 5)),
               "R": float(rng.uniform(1, 30) * 1e-6),
               "nu": float(rng.uniform(0, .5)),
               "virtual_parameter": float(10 ** rng.uniform(0, 5))}
    return prm


def grid_array(rng, n, lo, hi):
    ints = rng.integers(int(lo / Q), int(hi / Q), n)
    if rng.random() < .3 and n >= 3:
        # quantised axis: repeated samples (monotonic, not strictly)
        ints = np.sort(ints)[::-1]
        j = rng.integers(0, ints.size - 1, max(1, ints.size // 5))
        ints[j + 1] = ints[j]
        return np.sort(ints)[::-1].astype(float) * Q
    ints = np.unique(ints)[::-1]
    if rng.random() < .2 and ints.size >= 6:
        # measured abscissae are not strictly monotonic: swap neighbours
        j = rng.integers(1, ints.size - 2, max(1, ints.size // 6))
        ints[j], ints[j + 1] = ints[j + 1].copy(), ints[j].copy()
    return ints.astype(float) * Q


def one_case(rec, rng, cid, keys):
    from nanite import model
    mk = keys[int(rng.integers(len(keys)))]
    md = model.models_available[mk]
    prm = draw(rng, mk)
    n = int(rng.choice([2, 3, 10, 100, 700]))
    cp = float(int(rng.integers(-2 ** 19, 2 ** 19)) * Q)
    depth = 10 ** rng.uniform(-7.5, -5.4)
    if "R" in prm:
        depth = min(depth, prm["R"])
    x = grid_array(rng, n, cp - depth, cp + 10 ** rng.uniform(-7.5, -5.4))
    if x.size < 2:
        return
    n = x.size
    asc = bool(rng.random() < .5)
    xin = x[::-1].copy() if asc else x
    b0 = float(rng.choice([0.0, rng.uniform(-1, 1) * 1e-9]))
    prm = dict(prm, contact_point=cp, baseline=b0)
    p = gen.nanite_params(mk, prm)
    case = {"id": cid, "model": mk, "params": prm, "n": n, "asc": asc}
    rec.evaluated(dg=(mk, prm, x), nontrivial=bool(np.any(x < cp)))
    rec.event("cases model " + mk)

    x_before = xin.copy()
    p_before = core.fp(p)
    hmodels.SEEN_DELTA.clear()
    F = md.model(p, xin)
    # -- inputs unmodified
    rec.check(np.array_equal(xin, x_before) and core.fp(p) == p_before,
              "inputs-modified", "model() changed its arguments", case)
    # -- shape and order
    ok = isinstance(F, np.ndarray) and F.shape == xin.shape
    if not rec.check(ok, "shape", "output shape %s vs %s"
                     % (getattr(F, "shape", None), xin.shape), case):
        return
    # -- same array object evaluated again after in-place edits (abscissa
    # reversed in place; the array returned before post-processed in place)
    # -- the registered model evaluates the module's function with the
    # parameters given by NAME (whatever the order of its arguments)
    if mk not in ("hm_own", "hm_order"):
        vals = {k: p[k].value for k in p}
        Fd = md.module.model_func(delta=x.copy(), **vals)
        Fw = Fd[::-1] if asc else Fd
        rec.event("model output compared with the module's own function")
        rec.check(np.array_equal(F, Fw), "model/not-the-modules-function",
                  "model(params, x) differs from model_func(delta=x, "
                  "**values by name)", case)
    Fkeep = F.copy()
    # -- a later evaluation (same length, other parameters) must not write
    # into the array handed out before
    pother = gen.nanite_params(mk, dict(prm, baseline=b0 + 1e-9))
    Fother = md.model(pother, xin)
    rec.check(Fother is not F and np.array_equal(F, Fkeep),
              "repeatability/earlier-result-overwritten",
              "the array returned by one evaluation was changed by the next "
              "one", case)
    xin[:] = x_before[::-1]
    F2 = md.model(p, xin)
    rec.event("re-evaluations on the same array object")
    rec.check(isinstance(F2, np.ndarray) and F2.shape == Fkeep.shape and
              np.array_equal(F2[::-1], Fkeep), "order/reversed-in-place",
              "abscissa reversed in place: the output does not follow the "
              "order of the abscissa", case)
    xin[:] = x_before
    if F.flags.writeable:
        F -= 1.0
    F3 = md.model(p, xin)
    rec.check(isinstance(F3, np.ndarray) and np.array_equal(F3, Fkeep),
              "repeatability/returned-array-edited",
              "editing the returned array in place changes the next "
              "evaluation with the same arguments", case)
    F = Fkeep
    Frev = md.model(p, xin[::-1].copy())
    rec.check(np.array_equal(Frev[::-1], F), "order/reversal",
              lambda: "model(x[::-1])[::-1] != model(x); first diff at %d"
              % int(np.argmax(Frev[::-1] != F)), case)
    if mk == "hm_order":
        for (d0, d1, sz) in hmodels.SEEN_DELTA:
            rec.event("order-sensitive user function calls")
            rec.check(d0 >= d1, "order/user-function-sees-ascending",
                      "user function received delta[0]=%r < delta[-1]=%r"
                      % (d0, d1), case)
            # (... and all of it: a function may depend on every sample)
            rec.check(sz == n and d0 == x[0] and d1 == x[-1],
                      "order/user-function-sees-part-of-the-abscissa",
                      "user function received %d samples from %r to %r, the "
                      "abscissa has %d from %r to %r"
                      % (sz, d0, d1, n, x[0], x[-1]), case)
    # -- translation (exact on the dyadic grid)
    s = float(int(rng.integers(-2 ** 21, 2 ** 21)) * Q)
    p2 = gen.nanite_params(mk, dict(prm, contact_point=cp + s))
    Ft = md.model(p2, xin + s)
    rec.check(np.array_equal(Ft, F), "translation",
              lambda: "shift by %r changes force, max diff %r"
              % (s, float(np.max(np.abs(Ft - F)))), case)
    # -- baseline additivity
    dB = float(rng.uniform(-1, 1) * 10 ** rng.uniform(-12, -8))
    p3 = gen.nanite_params(mk, dict(prm, baseline=b0 + dB))
    Fb = md.model(p3, xin)
    tol = 4 * EPS * np.maximum(np.maximum(np.abs(Fb), np.abs(F)), abs(dB))
    rec.check(np.all(np.abs((Fb - F) - ((b0 + dB) - b0)) <= tol), "baseline",
              lambda: "F(b+d)-F(b) != d: max dev %r"
              % float(np.max(np.abs((Fb - F) - dB))), case)
    # -- modulus scaling
    # (the scaled moduli must stay inside the model's bounds, e.g. E_L<=1000)
    for nexp in [int(v) for v in rng.permutation(np.arange(-8, 9))]:
        fac = 2.0 ** nexp
        scaled = dict(prm)
        for k in hmodels.MODULI[mk]:
            scaled[k] = prm[k] * fac
        if all(p[k].min <= scaled[k] <= p[k].max
               for k in hmodels.MODULI[mk]):
            break
    if b0 == 0.0:
        p4 = gen.nanite_params(mk, scaled)
        Fs = md.model(p4, xin)
        rec.check(np.array_equal(Fs, F * fac), "modulus-scaling",
                  lambda: "moduli x 2^%d: force not scaled exactly, max rel "
                  "dev %r" % (nexp, float(np.max(np.abs(Fs - F * fac)
                                                 / np.maximum(np.abs(Fs),
                                                              1e-300)))),
                  case)
        rec.event("exact modulus scaling comparisons")
    else:
        p4 = gen.nanite_params(mk, scaled)
        Fs = md.model(p4, xin)
        big = np.maximum(np.maximum(np.abs(Fs), abs(b0)),
                         fac * np.maximum(np.abs(F), abs(b0)))
        rec.check(np.all(np.abs((Fs - b0) - fac * (F - b0)) <= 4 * EPS * big),
                  "modulus-scaling",
                  lambda: "moduli x 2^%d: F-b not scaled linearly" % nexp,
                  case)
    # -- continuity at contact, exact baseline out of contact, monotony
    H = float(cp - x.min())
    if H > 0:
        hs = np.array([H * 2.0 ** -j for j in (0, 10, 20, 30, 40)])
        probe = np.concatenate([cp - hs, [cp, cp + H * 2.0 ** -40, cp + H]])
        Fc = md.model(p, probe) - b0
        if mk == "hm_long":
            # (a force that acts before contact as well: continuity is the
            #  agreement of the two one-sided limits)
            rec.check(np.all(np.diff(Fc[:5]) <= 0) and
                      abs(Fc[4] - Fc[6]) <= 1e-6 * abs(Fc[0]) + 1e-300 and
                      abs(Fc[5] - Fc[6]) <= 1e-6 * abs(Fc[0]) + 1e-300,
                      "continuity/jump-at-contact",
                      lambda: "F-b just inside, at and just outside the "
                      "contact point: %r" % Fc[4:7].tolist(), case)
        else:
            rec.check(np.all(Fc[5:] == 0),
                      "continuity/out-of-contact-not-baseline",
                      "F-b = %r at/after the contact point"
                      % Fc[5:].tolist(), case)
            rec.check(np.all(np.diff(Fc[:5]) <= 0) and
                      abs(Fc[4]) <= 1e-6 * abs(Fc[0]) + 1e-300,
                      "continuity/jump-at-contact",
                      lambda: "F-b at depths H*2^-{0,10,20,30,40}: %r"
                      % Fc[:5].tolist(), case)
        # monotony over the whole (descending) array: depth increases
        # (sorted by depth: the abscissa may be locally non-monotonic)
        Fd = F[np.argsort(-xin, kind="stable")]
        rec.check(np.all(np.diff(Fd) >= -4 * EPS * np.max(np.abs(Fd))),
                  "monotony", lambda: "force decreases with depth by %r"
                  % float(np.min(np.diff(Fd))), case)
    # -- residual definition
    wcp = float(rng.choice([0, 0, 1e-7, 5e-7, 2e-6]))
    if rng.random() < .1:
        wcp = False
    force = F + rng.normal(0, 1e-10, F.size)
    f_before = force.copy()
    res = md.residual(p, xin, force, wcp)
    want = (force - F) * ref.cp_weights(xin, cp, wcp)
    rec.check(isinstance(res, np.ndarray) and res.shape == xin.shape and
              np.array_equal(res, want), "residual/definition",
              lambda: "residual != (force-model)*weights (weight_cp=%r), max "
              "dev %r" % (wcp, float(np.max(np.abs(res - want)))), case)
    rec.check(np.array_equal(force, f_before) and
              np.array_equal(xin, x_before) and core.fp(p) == p_before,
              "inputs-modified", "residual() changed its arguments", case)
    rec.event("residual comparisons weight on" if wcp else
              "residual comparisons weight off")
    rec.sample({"model": mk, "params": prm, "n": n, "ascending": asc,
                "shift": s, "scale_exp": nexp, "weight_cp": wcp})


def run_shard(rec, tier, seed, shard, nshards):
    from nanite import model
    mods = hmodels.register_all()
    try:
        keys = [k for k in model.models_available if k in hmodels.MODULI]
        other = [k for k in model.models_available
                 if k not in hmodels.MODULI]
        rec.note("registered models judged", sorted(keys))
        rec.note("registered models logged only", sorted(other))
        for i in range(N_CASES[tier]):
            rng = core.case_rng(seed, ID, shard, i)
            one_case(rec, rng, [shard, i], sorted(keys))
    finally:
        hmodels.deregister_all(mods)


def replay(rec, case):
    from nanite import model
    mods = hmodels.register_all()
    try:
        keys = sorted(k for k in model.models_available
                      if k in hmodels.MODULI)
        cid = case["case"]["id"]
        one_case(rec, core.case_rng(case["seed"], ID, cid[0], cid[1]), cid,
                 keys)
    finally:
        hmodels.deregister_all(mods)
