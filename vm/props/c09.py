"""C09 - quality rating is total, deterministic, in range, tied to the
current fit."""
import copy
import json
import os
import pathlib
import shutil
import subprocess
import sys
import tempfile

import numpy as np

from .. import core, gen, fitlab

ID = "C09"
LEVEL = "exploration"
ANCHORS = [("indent.py", "Indentation.rate_quality"),
           ("indent.py", "Indentation.get_rating_parameters"),
           ("rate/rater.py", "IndentationRater.rate"),
           ("rate/rater.py", "IndentationRater._pre_rate"),
           ("rate/rater.py", "IndentationRater._rate"),
           ("rate/rater.py", "get_rater"),
           ("rate/features.py", "IndentationFeatures.is_fitted")]
MIN_EVALS = {"quick": 300, "thorough": 6000}
MIN_EVENTS = {"ratings compared with the standalone rater": 150,
              "cache decisions judged": 250,
              "states without a successful current fit rated": 100,
              "cross-process rating comparisons": 10}
TIMEOUT = {"quick": 1200, "thorough": 3500}
N_CASES = {"quick": 6, "thorough": 160}     # curves per shard
RULE = ("case = (curve state: fresh | preprocessed only | fitted | settings "
        "edited after the fit | unsuccessful fit | refitted | retract fitted "
        "| recorded bad curve) x regressor (7 names, 'none' in 3 spellings) x "
        "training set (zef18, directory copy, generated directory, in-memory "
        "same objects, in-memory equal copies) x feature subset x lda; one "
        "oracle evaluation per rate_quality call; distinct by digest of "
        "(curve, state, configuration, previous configuration)")
ASSUMPTIONS = [
    "range [0, 10] demanded for Extra Trees, Random Forest, Decision Tree "
    "(averaging tree regressors); boosting / SVR extrapolate legitimately",
    "standalone rater = nanite.rate.get_rater built by the harness with the "
    "same arguments, applied to compute_features of the same state",
    "rater constructions are counted by a wrapper on nanite.indent.get_rater",
    "cross-process: two children with PYTHONHASHSEED 1 and 12345 recompute a "
    "fixed list of ratings"]

RANGE_CHECKED = {"Extra Trees", "Random Forest", "Decision Tree"}
REGS = ["AdaBoost", "Decision Tree", "Extra Trees", "Gradient Tree Boosting",
        "Random Forest", "SVR (linear kernel)", "SVR (RBF kernel)"]
NONE = ["none", "None", "NONE"]


def shards(tier):
    return 16


class RaterTap:
    def __init__(self):
        import nanite.indent as ni
        self.ni = ni
        self.orig = ni.get_rater
        self.built = 0

    def __enter__(self):
        tap = self

        def get_rater(*a, **k):
            tap.built += 1
            return tap.orig(*a, **k)
        self.ni.get_rater = get_rater
        return self

    def __exit__(self, *a):
        self.ni.get_rater = self.orig


ORACLE_RATERS = {}
# documented regressor defaults as they are when the process starts (the
# oracle must not follow a module-level default that was changed later)
REG0 = {}


def _freeze_regressor_defaults():
    if not REG0:
        from nanite.rate.regressors import reg_dict
        for k, (cls, kw) in reg_dict.items():
            REG0[k] = (cls, copy.deepcopy(kw))


CUR_REC = [None]


class _Standalone:
    """the standalone rater; an exception on a finite feature vector is
    itself what the statement excludes ("equals what the standalone rater
    computes from the curve's features")"""

    def __init__(self, rater, key):
        self._r, self._key = rater, key
        self.names = rater.names

    def rate(self, samples=None, datasets=None):
        try:
            return self._r.rate(samples=samples, datasets=datasets)
        except BaseException as e:  # noqa
            if CUR_REC[0] is not None:
                CUR_REC[0].violation(
                    "standalone-rater-raises/" + type(e).__name__,
                    "IndentationRater.rate(samples=features) raised %s: %s "
                    "for the configuration %r"
                    % (type(e).__name__, str(e)[:80], self._key[:2]
                       + self._key[2:]), {"configuration": repr(self._key)})
            return np.full(len(np.atleast_2d(samples)), np.nan)


def oracle_rater(regressor, training_set, names, lda, ts_key):
    """standalone rater built WITHOUT nanite.rate.get_rater (so that a cache
    or shortcut inside get_rater cannot leak into the oracle)"""
    from nanite.rate.rater import IndentationRater, \
        get_available_training_sets
    from nanite.rate.regressors import reg_dict
    key = (regressor, ts_key, tuple(names) if names else None, lda)
    _freeze_regressor_defaults()
    if key not in ORACLE_RATERS:
        if isinstance(training_set, tuple):
            ts = (training_set[0].copy(), training_set[1].copy())
        else:
            if training_set in get_available_training_sets():
                path = IndentationRater.get_training_set_path(training_set)
            else:
                path = training_set
            ts = IndentationRater.load_training_set(path=path, names=names)
        reg_cl, kw = REG0[regressor]
        ORACLE_RATERS[key] = IndentationRater(regressor=reg_cl(**dict(kw)),
                                              training_set=ts, names=names,
                                              lda=lda)
    return _Standalone(ORACLE_RATERS[key], key)


def make_training_sets(rng, scratch):
    """-> dict name -> (value to pass, key)"""
    from nanite.rate.rater import IndentationRater as IR
    src = pathlib.Path(IR.get_training_set_path("zef18"))
    out = {"zef18": ("zef18", "zef18")}
    d1 = pathlib.Path(scratch) / "ts_copy"
    if not d1.exists():
        shutil.copytree(src, d1)
    out["dir-copy"] = (str(d1), "dircopy")
    # generated directory: bootstrap of zef18 rows
    d2 = pathlib.Path(scratch) / "ts_gen"
    names = IR.get_feature_names()
    if not d2.exists():
        d2.mkdir()
        resp = np.loadtxt(src / "train_response.txt")
        idx = np.random.default_rng(5).integers(0, resp.size, 150)
        for n in names:
            col = np.loadtxt(src / ("train_%s.txt" % n))
            np.savetxt(d2 / ("train_%s.txt" % n), col[idx], fmt="%.2e")
        np.savetxt(d2 / "train_response.txt", resp[idx], fmt="%.2e")
    out["dir-generated"] = (pathlib.Path(d2), "dirgen")
    return out


def in_memory_ts(names):
    from nanite.rate.rater import IndentationRater as IR
    X, y = IR.load_training_set(names=names)
    return (X, y)


MEM = ("mem-same", "mem-copy", "mem-y-edited", "mem-X-edited")
FITTED = ("fitted", "refitted", "retract-fitted", "fitted-unusual")


def build_state(rng, cid):
    """-> (idnt, state name, curve description, factory to rebuild state)"""
    kind = rng.random()
    if kind < .25:
        files = sorted(gen.DATA.glob("fmt-jpk-fd_s*.jpk-force"))
        path = files[int(rng.integers(len(files)))]
        base = lambda: gen.load_recorded(path)   # noqa
        desc = "recorded:" + path.name
    else:
        spec = fitlab.draw_curve_spec(
            rng, models=["hertz_para", "sneddon_spher_approx"],
            npts=(300, 700, 1500), noise_snr=(300, 50, 15), with_tip=True)
        # (a third of the curves come without a recorded tip position)
        spec["with_tip"] = bool(rng.random() < .67)

        def base():
            return fitlab.build_curve(spec)[0]
        desc = {"synthetic": spec}
    state = ["fresh", "preprocessed-only", "fitted", "fitted",
             "settings-edited-after-fit", "unsuccessful-fit", "refitted",
             "retract-fitted", "unsuccessful-multi-pass-fit",
             "fitted-unusual", "settings-only",
             "reprocessed-without-tip-position"][int(rng.integers(12))]
    odd = fitlab.draw_odd_fit(rng)
    if state == "fitted-unusual":
        if isinstance(desc, dict):
            desc["unusual fit"] = odd
        else:
            desc += " unusual fit %s" % json.dumps(odd)
    pipe = ["compute_tip_position", "correct_force_offset",
            "correct_tip_offset"]
    mk = ["hertz_para", "sneddon_spher_approx"][int(rng.integers(2))]

    def build():
        i = base()
        if state == "fresh":
            return i
        if state == "settings-only":
            # nothing preprocessed, nothing fitted, only settings stored
            i.fit_properties["model_key"] = mk
            i.fit_properties["weight_cp"] = 3e-7
            return i
        i.apply_preprocessing(list(pipe))
        if state == "preprocessed-only":
            return i
        if state == "unsuccessful-fit":
            try:
                i.fit_model(model_key=mk, range_x=[1e-3, 1.001e-3])
            except (KeyError, ValueError, IndexError):
                # the curve a failed call leaves behind is a state as well
                pass
            return i
        if state == "unsuccessful-multi-pass-fit":
            # first pass succeeds, later passes have no points (on the
            # recorded 'bad' curves the first pass fails: KeyError)
            try:
                i.fit_model(model_key=mk, range_type="relative cp",
                            range_x=[1e-3, 2e-3])
            except (KeyError, ValueError, IndexError):
                pass
            return i
        i.fit_model(model_key=mk)
        if state == "settings-edited-after-fit":
            i.fit_properties["weight_cp"] = 2.5e-7
        elif state == "refitted":
            i.fit_model(model_key=mk, range_x=[-2e-6, 1e-6], weight_cp=0)
        elif state == "retract-fitted":
            i.fit_model(model_key=mk, segment=1)
        elif state == "reprocessed-without-tip-position":
            # results dropped; the abscissa of the fit may be gone
            i.apply_preprocessing(["correct_force_offset"])
        elif state == "fitted-unusual":
            # contact point driven towards an end of the approach, few
            # samples in the indentation / baseline part, other abscissa
            fitlab.odd_fit(i, mk, odd)
        return i
    return build, state, desc


def expected_without_fit(idnt, names):
    """-1, or 0 iff a binary feature computed on this state is 0"""
    from nanite.rate.features import IndentationFeatures as IF
    b = IF.compute_features(idnt, which_type="binary", names=names)
    return 0 if np.sum(b == 0) else -1


def one_curve(rec, rng, cid, tsets, xproc):
    build, state, desc = build_state(rng, cid)
    try:
        idnt = build()
    except BaseException as e:  # noqa
        rec.event("state construction raised " + type(e).__name__)
        return
    from nanite.rate.features import IndentationFeatures as IF
    allnames = IF.get_feature_names()
    prev = None
    hist = []
    for step in range(int(rng.integers(4, 9))):
        # configuration; often change exactly one component of the previous
        if prev is not None and rng.random() < .35:
            cfg = dict(prev)                      # identical repetition
        elif prev is not None and rng.random() < .6:
            cfg = dict(prev)
            which = int(rng.integers(4))
            if which == 0:
                cfg["regressor"] = REGS[int(rng.integers(7))]
            elif which == 1:
                cfg["ts"] = list(tsets)[int(rng.integers(len(tsets)))]
            elif which == 2:
                k = int(rng.choice([0, 3, 6, 10]))
                cfg["names"] = None if k == 0 else sorted(
                    allnames[i] for i in rng.permutation(len(allnames))[:k])
            else:
                cfg["lda"] = [None, False, True][int(rng.integers(3))]
        else:
            k = int(rng.choice([0, 0, 4, 8]))
            cfg = {"regressor": (REGS + ["Extra Trees"] * 3 + NONE)[
                int(rng.integers(13))],
                "ts": (list(tsets) + list(MEM))[
                    int(rng.integers(len(tsets) + len(MEM)))],
                "names": None if k == 0 else sorted(
                    allnames[i] for i in rng.permutation(len(allnames))[:k]),
                "lda": [None, None, False, True][int(rng.integers(4))]}
        names = cfg["names"]
        # names must contain at least one continuous feature for training
        if names is not None and not any("_con_" in n for n in names):
            names = cfg["names"] = names + ["feat_con_apr_sum"]
        if cfg["ts"] in MEM:
            if prev is not None and prev.get("ts") in MEM and \
                    prev.get("names") == names and "_mem" in prev:
                base_ts = prev["_mem"]
            else:
                base_ts = in_memory_ts(names)
            if cfg["ts"] == "mem-same":
                ts_val = base_ts
            elif cfg["ts"] == "mem-copy":
                ts_val = (base_ts[0].copy(), base_ts[1].copy())
            elif cfg["ts"] == "mem-y-edited":
                # same samples, other responses (only one array differs)
                ts_val = (base_ts[0].copy(),
                          np.clip(10 - base_ts[1], 0, 10))
            else:
                Xe = base_ts[0].copy()
                Xe[:, 0] = Xe[:, 0] * 1.5 + .1
                ts_val = (Xe, base_ts[1].copy())
            cfg["_mem"] = base_ts
            ts_key = "mem" if cfg["ts"] in MEM[:2] else cfg["ts"]
        else:
            ts_val, ts_key = tsets[cfg["ts"]]
        # the caller may list the feature names in any order
        names_passed = names
        if names is not None and rng.random() < .5:
            names_passed = [names[i] for i in rng.permutation(len(names))]
            rec.event("feature names passed in shuffled order")
        pub = {k: v for k, v in cfg.items() if not k.startswith("_")}
        pub["names_as_passed"] = names_passed
        hist.append(pub)
        case = {"id": cid, "curve": desc, "state": state, "configs": hist}
        cached_before = copy.copy(idnt._rating)
        with RaterTap() as tap:
            try:
                rt = idnt.rate_quality(regressor=cfg["regressor"],
                                       training_set=ts_val,
                                       names=names_passed, lda=cfg["lda"])
            except BaseException as e:  # noqa
                rec.evaluated(dg=(desc, state, hist))
                mech = "in-memory-training-set-copy" \
                    if cfg["ts"] == "mem-copy" and isinstance(e, ValueError) \
                    else state
                rec.violation("raises/%s/%s" % (mech, type(e).__name__),
                              "rate_quality raised %s: %s (state %s, config "
                              "%s)" % (type(e).__name__, str(e)[:80], state,
                                       pub), case)
                prev = None
                continue
            built = tap.built
        rec.evaluated(dg=(desc, state, hist))
        fitted = state in FITTED and \
            bool(idnt.fit_properties.get("success"))
        isnone = cfg["regressor"].lower() == "none"
        # ---- value
        if isnone:
            rec.event("pseudo-regressor 'none' rated")
            rec.check(rt == -1, "none-regressor-not-minus-1",
                      "regressor %r returned %r" % (cfg["regressor"], rt),
                      case)
        else:
            orat = oracle_rater(cfg["regressor"], ts_val, names, cfg["lda"],
                                ts_key)
            feats = IF.compute_features(idnt, names=orat.names)
            want = orat.rate(samples=np.atleast_2d(feats))[0]
            rec.event("ratings compared with the standalone rater")
            rec.check(rt == want or (np.isnan(rt) and np.isnan(want)),
                      "differs-from-standalone-rater",
                      "rate_quality %r, standalone rater on the curve's "
                      "features %r (%s)" % (rt, want, pub), case)
            if not fitted:
                rec.event("states without a successful current fit rated")
                exp = expected_without_fit(idnt, orat.names)
                rec.check(rt == exp, "no-current-fit/not-minus-1-or-0",
                          "state %s rated %r, expected %r" % (state, rt, exp),
                          case)
            else:
                binf = IF.compute_features(idnt, which_type="binary",
                                           names=orat.names)
                conf = IF.compute_features(idnt, which_type=["continuous"],
                                           names=orat.names)
                if np.sum(binf == 0):
                    rec.event("failed binary criterion")
                    rec.check(rt == 0, "binary-criterion/not-0",
                              "binary feature 0 but rating %r" % rt, case)
                elif np.isnan(np.sum(conf)):
                    rec.event("undefined feature")
                    rec.check(rt == -1, "undefined-feature/not-minus-1",
                              "NaN feature but rating %r" % rt, case)
                elif cfg["regressor"] in RANGE_CHECKED:
                    rec.event("range-checked predictions")
                    rec.check(0 <= rt <= 10, "prediction-out-of-range",
                              "%s predicted %r" % (cfg["regressor"], rt),
                              case)
                if xproc is not None and cfg["ts"] == "zef18" and \
                        isinstance(desc, dict) and len(xproc) < 12:
                    xproc.append({"spec": desc["synthetic"], "state": state,
                                  "cfg": pub, "rating": float(rt),
                                  "cid": cid})
        # ---- cache discipline
        curhash = idnt.fit_properties.get("hash", "none") \
            if idnt.fit_properties else "none"
        if not isnone:
            rec.event("cache decisions judged")
            mem = MEM[:2]
            # in-memory training sets are equal by VALUE whether the same
            # objects or equal copies are passed (same names -> same matrix)
            same_ts = prev is not None and (
                prev["ts"] == cfg["ts"] or
                (prev["ts"] in mem and cfg["ts"] in mem))
            same_key = (cached_before is not None and prev is not None and
                        cached_before[0] == curhash and
                        prev["regressor"] == cfg["regressor"] and same_ts and
                        prev.get("_names_passed") == names_passed and
                        prev["lda"] == cfg["lda"])
            if same_key:
                rec.event("repeated configuration")
                rec.check(built == 0, "cache/rebuilt-although-unchanged",
                          "unchanged configuration built %d raters" % built,
                          case)
            else:
                rec.check(built == 1, "cache/stale-or-multiple",
                          "changed configuration (or first call) built %d "
                          "raters" % built, case)
            rp = idnt.get_rating_parameters()
            rec.check(rp["Rating"] == rt or (np.isnan(rp["Rating"])
                                             and np.isnan(rt)),
                      "rating-parameters/inconsistent",
                      "get_rating_parameters() reports %r after %r"
                      % (rp["Rating"], rt), case)
        # ---- repetition and fresh object in the same state
        if rng.random() < .3 and not isnone:
            again = idnt.rate_quality(regressor=cfg["regressor"],
                                      training_set=ts_val,
                                      names=names_passed, lda=cfg["lda"])
            tw = build()
            twin = tw.rate_quality(regressor=cfg["regressor"],
                                   training_set=ts_val,
                                   names=names_passed, lda=cfg["lda"])
            same_fit = core.fp(tw.fit_properties.get("params_fitted")) == \
                core.fp(idnt.fit_properties.get("params_fitted"))
            if not same_fit:
                # lmfit does not reproduce a fit bit by bit when a parameter
                # ends on a bound (seen with the 'unusual' fits): the fresh
                # object is then in another state, only the repetition counts
                rec.event("fresh object's fit not bit-identical (lmfit "
                          "irreproducibility at a bound): repetition only")
                twin = rt
            rec.event("repetition / fresh-object comparisons")
            rec.check((again == rt and twin == rt) or np.isnan(rt),
                      "not-deterministic",
                      "rating %r, repeated %r, fresh object in the same state "
                      "%r" % (rt, again, twin), case)
        cfg["_names_passed"] = names_passed
        prev = cfg if not isnone else prev
    if xproc is not None and isinstance(desc, dict) and len(xproc) < 12 \
            and state in FITTED:
        cfgx = {"regressor": REGS[int(rng.integers(7))], "ts": "zef18",
                "names": None, "lda": None}
        try:
            rtx = float(idnt.rate_quality(regressor=cfgx["regressor"]))
        except BaseException:  # noqa
            pass
        else:
            xproc.append({"spec": desc["synthetic"], "state": state,
                          "cfg": cfgx, "rating": rtx, "cid": cid})
    rec.sample({"curve": desc if isinstance(desc, str) else "synthetic",
                "state": state, "configs": hist}, limit=2)


def memory_set_sequence(rec, rng, cid):
    """ONE fitted curve rated with in-memory training sets that differ in one
    array only, one after the other (same regressor, names, LDA flag): each
    rating is the standalone rater's for that very training set"""
    from nanite.rate.features import IndentationFeatures as IF
    spec = fitlab.draw_curve_spec(rng, models=["hertz_para"], npts=(700,),
                                  noise_snr=(100,), with_tip=True)
    idnt = fitlab.build_curve(spec)[0]
    idnt.fit_model(model_key="hertz_para")
    reg = ["Extra Trees", "Random Forest", "Decision Tree"][
        int(rng.integers(3))]
    base = in_memory_ts(None)
    Xe = base[0].copy()
    Xe[:, 0] = Xe[:, 0] * 1.5 + .1
    variants = {"mem-same": base,
                "mem-y-edited": (base[0].copy(),
                                 np.clip(10 - base[1], 0, 10)),
                "mem-X-edited": (Xe, base[1].copy()),
                "mem-copy": (base[0].copy(), base[1].copy())}
    order = [str(k) for k in rng.permutation(sorted(variants))]
    hist = []
    for kind in order + [order[0]]:
        ts_val = variants[kind]
        hist.append(kind)
        case = {"id": cid, "kind": "memory-set-sequence", "regressor": reg,
                "sequence": list(hist)}
        try:
            rt = idnt.rate_quality(regressor=reg, training_set=ts_val)
        except BaseException as e:  # noqa
            rec.violation("raises/memory-set-sequence/" + type(e).__name__,
                          "rate_quality raised %s" % str(e)[:80], case)
            continue
        ts_key = "mem" if kind in MEM[:2] else kind
        orat = oracle_rater(reg, ts_val, None, None, ts_key)
        want = orat.rate(samples=np.atleast_2d(
            IF.compute_features(idnt, names=orat.names)))[0]
        rec.evaluated(dg=("memseq", cid, list(hist)))
        rec.event("ratings compared with the standalone rater")
        rec.event("in-memory training set sequences")
        rec.check(rt == want, "differs-from-standalone-rater/after-other-"
                  "in-memory-training-set",
                  "rated %r with %s after %s, standalone rater %r"
                  % (rt, kind, hist[:-1], want), case)


REFITS = [dict(method_kws={"ftol": .1, "xtol": .1}),
          dict(method_kws={"ftol": 1e-3}),
          dict(weight_cp=0), dict(weight_cp=4e-7),
          dict(range_x=[-8e-7, 1e-6]), dict(gcf_k=.5),
          dict(method="nelder"), dict(segment=1),
          dict(optimal_fit_edelta=True, optimal_fit_num_samples=8),
          dict(model_key="hertz_cone")]


def refit_sequence(rec, rng, cid):
    """ONE curve is rated, refitted with one setting changed, rated again,
    ...: every rating belongs to the fit that is current (the cache is keyed
    by the fit hash)"""
    from nanite.rate.features import IndentationFeatures as IF
    spec = fitlab.draw_curve_spec(rng, models=["hertz_para"], npts=(700,),
                                  noise_snr=(50, 20), with_tip=True)
    idnt = fitlab.build_curve(spec)[0]
    idnt.apply_preprocessing(["compute_tip_position", "correct_force_offset",
                              "correct_tip_offset"])
    reg = ["Extra Trees", "Random Forest", "AdaBoost"][int(rng.integers(3))]
    hist = []
    try:
        idnt.fit_model(model_key="hertz_para")
    except BaseException:  # noqa
        return
    for step in range(5):
        case = {"id": cid, "kind": "refit-sequence", "regressor": reg,
                "refits": list(hist)}
        try:
            rt = idnt.rate_quality(regressor=reg)
        except BaseException as e:  # noqa
            rec.violation("raises/refit-sequence/" + type(e).__name__,
                          "rate_quality raised %s" % str(e)[:80], case)
            return
        orat = oracle_rater(reg, "zef18", None, None, "zef18")
        fe = IF.compute_features(idnt, names=orat.names)
        if idnt.fit_properties.get("success") and not np.isnan(fe).any() \
                and not np.any(IF.compute_features(
                    idnt, which_type="binary") == 0):
            want = orat.rate(samples=np.atleast_2d(fe))[0]
            rec.evaluated(dg=("refitseq", cid, list(hist)))
            rec.event("ratings compared with the standalone rater")
            rec.event("ratings after a refit of the same curve")
            rec.check(rt == want, "rating-not-of-the-current-fit",
                      "after the refits %s the curve is rated %r, the "
                      "standalone rater gives %r for its current features"
                      % (hist, rt, want), case)
        kw = copy.deepcopy(REFITS[int(rng.integers(len(REFITS)))])
        hist.append(kw)
        try:
            idnt.fit_model(**kw)
        except BaseException:  # noqa
            return


def cwd_shadow(rec, rng, cid, tsets, scratch):
    """the label of a shipped training set names that training set, whatever
    the working directory of the process happens to contain"""
    import os
    from nanite.rate.features import IndentationFeatures as IF
    spec = fitlab.draw_curve_spec(rng, models=["hertz_para"], npts=(700,),
                                  noise_snr=(100, 30), with_tip=True)
    idnt = fitlab.build_curve(spec)[0]
    idnt.fit_model(model_key="hertz_para")
    reg = REGS[int(rng.integers(7))]
    kind = ["directory with another training set", "empty directory",
            "file"][int(rng.integers(3))]
    wd = pathlib.Path(scratch) / ("cwd_%d" % int(rng.integers(10 ** 9)))
    wd.mkdir()
    if kind == "directory with another training set":
        shutil.copytree(tsets["dir-generated"][0], wd / "zef18")
    elif kind == "empty directory":
        (wd / "zef18").mkdir()
    else:
        (wd / "zef18").write_text("0.5\n")
    case = {"id": cid, "kind": "cwd-shadow", "regressor": reg,
            "working directory contains 'zef18' as": kind}
    old = os.getcwd()
    os.chdir(wd)
    try:
        via = int(rng.integers(2))
        try:
            if via:
                rt = idnt.rate_quality(regressor=reg, training_set="zef18")
            else:
                rt = idnt.rate_quality(regressor=reg)
        except BaseException as e:  # noqa
            rec.violation("raises/cwd-shadow/" + type(e).__name__,
                          "rate_quality raised %s with a %s named 'zef18' "
                          "in the working directory" % (str(e)[:80], kind),
                          case)
            return
    finally:
        os.chdir(old)
    orat = oracle_rater(reg, "zef18", None, None, "zef18")
    fe = IF.compute_features(idnt, names=orat.names)
    if idnt.fit_properties.get("success") and not np.isnan(fe).any() \
            and not np.any(IF.compute_features(
                idnt, which_type="binary") == 0):
        want = orat.rate(samples=np.atleast_2d(fe))[0]
        rec.evaluated(dg=("cwdshadow", cid, kind))
        rec.event("ratings compared with the standalone rater")
        rec.event("ratings with a 'zef18' entry in the working directory")
        rec.check(rt == want, "label-resolved-by-working-directory",
                  "with a %s named 'zef18' in the working directory the "
                  "label 'zef18' rates %r, the shipped set gives %r"
                  % (kind, rt, want), case)


def crosstalk(rec, rng, cid, tsets):
    """configurations that differ in one component, requested one after the
    other on FRESH curve objects in this process: a rating must not depend on
    which configurations were requested before (shared caches)"""
    import itertools
    from nanite.rate.features import IndentationFeatures as IF
    spec = fitlab.draw_curve_spec(rng, models=["hertz_para"], npts=(700,),
                                  noise_snr=(100,), with_tip=True)

    def fresh():
        i = fitlab.build_curve(spec)[0]
        i.fit_model(model_key="hertz_para")
        return i
    reg = REGS[int(rng.integers(7))]
    names = [None, ["feat_con_apr_sum", "feat_con_idt_sum",
                    "feat_con_bln_slope", "feat_bin_size"]][
        int(rng.integers(2))]
    orders = list(itertools.permutations([None, False, True]))
    order = orders[int(rng.integers(len(orders)))]
    seq = [(reg, "zef18", names, lda) for lda in order]
    # the same again with the directory copy, and with another regressor
    seq += [(reg, "dir-copy", names, order[0]),
            (REGS[int(rng.integers(7))], "zef18", names, order[1]),
            (reg, "zef18", None if names else ["feat_con_apr_sum",
                                               "feat_bin_size"], order[0])]
    hist = []
    for (rg, tsname, nm, lda) in seq:
        ts_val, ts_key = tsets[tsname]
        hist.append([rg, tsname, nm, lda])
        case = {"id": cid, "kind": "crosstalk", "sequence": list(hist)}
        idnt = fresh()
        try:
            rt = idnt.rate_quality(regressor=rg, training_set=ts_val,
                                   names=nm, lda=lda)
        except BaseException as e:  # noqa
            rec.violation("raises/crosstalk/" + type(e).__name__,
                          "rate_quality raised %s" % str(e)[:80], case)
            continue
        orat = oracle_rater(rg, ts_val, nm, lda, ts_key)
        want = orat.rate(samples=np.atleast_2d(
            IF.compute_features(idnt, names=orat.names)))[0]
        rec.evaluated(dg=("crosstalk", hist))
        rec.event("ratings compared with the standalone rater")
        rec.event("cross-configuration sequence ratings")
        rec.check(rt == want, "differs-from-standalone-rater/after-other-"
                  "configurations",
                  "fresh curve rated %r with %s, standalone rater %r; "
                  "configurations requested before in this process: %s"
                  % (rt, hist[-1], want, hist[:-1]), case)


def child_main(path):
    """recompute the ratings listed in `path` (JSON) in this process"""
    import warnings
    warnings.simplefilter("ignore")
    items = json.load(open(path))
    out = []
    for it in items:
        rng = core.case_rng(it["seed"], ID, it["cid"][0], it["cid"][1])
        build, state, desc = build_state(rng, it["cid"])
        idnt = build()
        cfg = it["cfg"]
        out.append(float(idnt.rate_quality(regressor=cfg["regressor"],
                                           training_set="zef18",
                                           names=cfg["names"],
                                           lda=cfg["lda"])))
    print("RATINGS " + json.dumps(out))


def cross_process(rec, items, seed):
    if not items:
        return
    fd, path = tempfile.mkstemp(suffix=".json")
    os.close(fd)
    for it in items:
        it["seed"] = seed
    json.dump(core.jsonable(items), open(path, "w"))
    try:
        for hs in ("1", "12345"):
            env = dict(os.environ, PYTHONHASHSEED=hs)
            p = subprocess.run([sys.executable, "-c",
                                "from vm.props import c09; "
                                "c09.child_main(%r)" % path],
                               env=env, capture_output=True, text=True,
                               timeout=600, cwd=str(core.VERIF))
            line = [ln for ln in p.stdout.splitlines()
                    if ln.startswith("RATINGS ")]
            if not line:
                rec.inconclusive_because("cross-process child failed: "
                                         + p.stderr[-300:])
                return
            got = json.loads(line[0][8:])
            for it, g in zip(items, got):
                rec.event("cross-process rating comparisons")
                rec.evaluated(dg=("xproc", hs, it["cid"], it["cfg"]))
                rec.check(g == it["rating"], "not-deterministic/across-"
                          "processes", "rating %r here, %r in a process with "
                          "PYTHONHASHSEED=%s" % (it["rating"], g, hs),
                          {"id": it["cid"], "cfg": it["cfg"]})
    finally:
        os.unlink(path)


CUSTOM_KW = {"AdaBoost": {"n_estimators": 3},
             "Decision Tree": {"max_depth": 1},
             "Extra Trees": {"n_estimators": 2, "max_depth": 1},
             "Gradient Tree Boosting": {"n_estimators": 3},
             "Random Forest": {"n_estimators": 2, "max_depth": 2},
             "SVR (linear kernel)": {"C": .01},
             "SVR (RBF kernel)": {"C": .01}}


def custom_rater_elsewhere(rec, rng):
    """somebody in the same process builds a rater with own regressor
    keywords (documented: get_rater(..., **reg_kwargs)); ratings of curves
    must not notice"""
    from nanite.rate import get_rater
    name = sorted(CUSTOM_KW)[int(rng.integers(len(CUSTOM_KW)))]
    try:
        get_rater(name, training_set="zef18", **CUSTOM_KW[name])
        rec.event("raters with own regressor keywords built in between")
    except BaseException as e:  # noqa
        rec.event("get_rater with keywords raised " + type(e).__name__)


def run_shard(rec, tier, seed, shard, nshards):
    CUR_REC[0] = rec
    _freeze_regressor_defaults()
    state0 = core.library_state()
    try:
        _run_shard(rec, tier, seed, shard, nshards)
    finally:
        core.check_library_state(rec, state0, {"id": [shard, -1]})


def _run_shard(rec, tier, seed, shard, nshards):
    scratch = tempfile.mkdtemp(prefix="nv_c09_")
    try:
        tsets = make_training_sets(core.case_rng(seed, ID, shard, 10 ** 6),
                                   scratch)
        xproc = [] if shard < 6 else None
        for i in range(N_CASES[tier]):
            if i % 3 == 1:
                custom_rater_elsewhere(rec, core.case_rng(seed, ID, shard,
                                                          3 * 10 ** 6 + i))
            one_curve(rec, core.case_rng(seed, ID, shard, i), [shard, i],
                      tsets, xproc)
        crosstalk(rec, core.case_rng(seed, ID, shard, 10 ** 6 + 1),
                  [shard, 10 ** 6 + 1], tsets)
        memory_set_sequence(rec, core.case_rng(seed, ID, shard, 10 ** 6 + 2),
                            [shard, 10 ** 6 + 2])
        for j in range(3 if tier == "quick" else 30):
            cwd_shadow(rec, core.case_rng(seed, ID, shard, 2 * 10 ** 6 + j),
                       [shard, 2 * 10 ** 6 + j], tsets, scratch)
        for j in range(3 if tier == "quick" else 40):
            refit_sequence(rec, core.case_rng(seed, ID, shard,
                                              10 ** 6 + 10 + j),
                           [shard, 10 ** 6 + 10 + j])
        if xproc is not None:
            cross_process(rec, xproc, seed)
    finally:
        shutil.rmtree(scratch, ignore_errors=True)


def replay(rec, case):
    CUR_REC[0] = rec
    cid = case["case"]["id"]
    scratch = tempfile.mkdtemp(prefix="nv_c09_")
    try:
        tsets = make_training_sets(core.case_rng(0, ID, 0, 10 ** 6), scratch)
        kind = case["case"].get("kind")
        r = core.case_rng(case["seed"], ID, cid[0], cid[1])
        if kind == "crosstalk":
            crosstalk(rec, r, cid, tsets)
        elif kind == "cwd-shadow":
            cwd_shadow(rec, r, cid, tsets, scratch)
        elif kind == "refit-sequence":
            refit_sequence(rec, r, cid)
        elif kind == "memory-set-sequence":
            memory_set_sequence(rec, r, cid)
        else:
            one_curve(rec, core.case_rng(case["seed"], ID, cid[0], cid[1]),
                      cid, tsets, None)
    finally:
        shutil.rmtree(scratch, ignore_errors=True)
