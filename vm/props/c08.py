"""C08 - contact point estimators: valid index, scale/shift invariance,
accuracy on clean curves, fallback on degenerate input."""
import itertools

import numpy as np

from .. import core, gen, ref, fitlab

ID = "C08"
LEVEL = "exploration"
ANCHORS = [("poc.py", "compute_poc"),
           ("poc.py", "compute_preproc_clip_approach"),
           ("poc.py", "poc_deviation_from_baseline"),
           ("poc.py", "poc_fit_constant_line"),
           ("poc.py", "poc_fit_constant_polynomial"),
           ("poc.py", "poc_fit_line_polynomial"),
           ("poc.py", "poc_frechet_direct_path"),
           ("poc.py", "poc_gradient_zero_crossing")]
MIN_EVALS = {"quick": 10000, "thorough": 100000}
MIN_EVENTS = {"raw estimator returned NaN": 50, "curve estimates": 1000}
TIMEOUT = {"quick": 900, "thorough": 3500}
N_CURVES = {"quick": 22, "thorough": 130}       # per shard
N_LARGE = {"quick": 4, "thorough": 24}           # per shard
N_RANDOM_DEGEN = {"quick": 30, "thorough": 250}  # per shard and family
RULE = ("curve cases = (model, E, N, baseline fraction, noise, tilt, offset) "
        "x 6 estimators x {identity, 2^n scale, arbitrary scale, shift}; "
        "degenerate cases = every array over {0,1,2} of length 1..8 plus "
        "random constant / decreasing / increasing-without-baseline / noise / "
        "short arrays x 6 estimators; distinct by digest of (estimator, "
        "array bytes); non-trivial = estimator body executed (array long "
        "enough for the estimator's own size guard) or fallback taken")
ASSUMPTIONS = [
    "accuracy is judged per shard: a violation needs >= 3 outliers and more "
    "than 2 % of the clean-curve estimates of an estimator (isolated "
    "failures of the fit-based estimators occur on the unchanged tree)",
    "accuracy fractions per estimator are the harness' stated ones "
    "(deviation 0.02, polynomial fits 0.10, gradient 0.08, constant+line "
    "0.35, Frechet 0.40 of the approach length), calibrated on the "
    "unchanged tree with >4x margin; clean = noise-free, untilted, baseline "
    "25-80% of the approach",
    "invariance is checked on curves with a baseline followed by an "
    "indentation (SNR >= 30), as the statement says"]

ACC = {"deviation_from_baseline": 0.02, "fit_constant_polynomial": 0.10,
       "fit_line_polynomial": 0.10, "gradient_zero_crossing": 0.08,
       "fit_constant_line": 0.35, "frechet_direct_path": 0.40}
MODELS = ["hertz_para", "hertz_cone", "hertz_pyr3s", "sneddon_spher_approx"]
ACC_STATS = {}


def shards(tier):
    return 16


class Tap:
    """wrap every entry of poc.POC_METHODS in place; remember raw returns"""

    def __init__(self):
        from nanite import poc
        self.poc = poc
        self.orig = list(poc.POC_METHODS)
        self.last = None
        self.calls = 0

    def install(self):
        tap = self

        def wrap(f):
            def wrapper(force, ret_details=False):
                tap.calls += 1
                before = force.copy()
                out = f(force, ret_details=ret_details)
                tap.last = {"raw": out[0] if ret_details else out,
                            "size": force.size,
                            "mutated": not np.array_equal(before, force,
                                                          equal_nan=True)}
                return out
            wrapper.identifier = f.identifier
            wrapper.name = f.name
            wrapper.preprocessing = f.preprocessing
            wrapper.__wrapped__ = f
            return wrapper
        self.poc.POC_METHODS[:] = [wrap(f) for f in self.orig]

    def remove(self):
        self.poc.POC_METHODS[:] = self.orig


def classify_exc(e):
    msg = str(e)
    if "zero-size array" in msg:
        return "empty-array-after-clipping"
    if "NaN values detected" in msg or "nan" in msg.lower():
        return "nan-handed-to-optimizer"
    if isinstance(e, IndexError):
        return "index-error-inside-estimator"
    return type(e).__name__


def estimate(rec, tap, meth, force, case, family):
    """run compute_poc under the tap; judge validity; return index or None"""
    from nanite import poc
    f0 = force.copy()
    tap.last = None
    try:
        i = poc.compute_poc(force, meth)
    except BaseException as e:  # noqa
        rec.violation("%s/%s/raises/%s" % (family, meth, classify_exc(e)),
                      "%s raised %s: %s" % (meth, type(e).__name__,
                                            str(e)[:100]), case)
        return None
    rec.check(np.array_equal(force, f0, equal_nan=True),
              "%s/force-mutated" % meth, "compute_poc modified its input",
              case)
    isint = isinstance(i, (int, np.integer)) and not isinstance(i, bool)
    ok = isint and 0 <= i < force.size
    rec.check(ok, "%s/%s/invalid-index" % (family, meth),
              "%s returned %r for an array of length %d" % (meth, i,
                                                            force.size), case)
    if tap.last is not None:
        raw = tap.last["raw"]
        rec.check(not tap.last["mutated"], "%s/force-mutated" % meth,
                  "estimator modified the array it was handed", case)
        if isinstance(raw, float) and np.isnan(raw):
            rec.event("raw estimator returned NaN")
            rec.check(i == tap.last["size"] // 2, "%s/nan-fallback" % meth,
                      "raw NaN but result %r != centre %d"
                      % (i, tap.last["size"] // 2), case)
    # the same request asking for the details dictionary (as the
    # preprocessing step does with ret_details=True): same index, no
    # exception, also where the fallback applies
    if family == "degenerate" or DETAIL_COUNTER[0] % 4 == 0:
        rec.event("estimates requested with ret_details=True")
        try:
            out = poc.compute_poc(f0.copy(), meth, ret_details=True)
            i2 = out[0] if isinstance(out, tuple) else out
            rec.check(isinstance(out, tuple) and len(out) == 2 and
                      isinstance(out[1], dict) and i2 == i,
                      "%s/%s/details-variant-differs" % (family, meth),
                      "%s with ret_details=True returned %r, without %r"
                      % (meth, i2 if not isinstance(out, tuple) else out[0],
                         i), case)
        except BaseException as e:  # noqa
            rec.violation("%s/%s/raises-with-details/%s"
                          % (family, meth, classify_exc(e)),
                          "%s with ret_details=True raised %s: %s"
                          % (meth, type(e).__name__, str(e)[:100]), case)
    DETAIL_COUNTER[0] += 1
    return int(i) if ok else None


DETAIL_COUNTER = [0]
MTAP = None          # fitlab.MinimizeTap, installed by run_shard / replay
ABORTS = {}


def judge_internal(rec, m, entries, case, large_clean):
    """internal optimisations of the fit-based estimators, observed at
    lmfit.minimize: on curves with a baseline and an indentation they end on
    their own (the unchanged tree needs <= ~3700 of its 8000-14000
    evaluations); one that runs out of its budget makes the estimator fall
    back to the middle of the data without telling anybody"""
    for e in entries:
        rec.event("internal optimisations of fit-based estimators observed")
        rec.maximum("evaluations of an internal optimisation (%s)" % m,
                    e["nfev"])
        if e["aborted"]:
            rec.event("internal optimisations that ran out of budget")
            st = ABORTS.setdefault(m, [0, None])
            st[0] += 1
            if st[1] is None:
                st[1] = dict(case, method=m, nfev=e["nfev"])


BIFURCATIONS = {}


def bifurcation(m, i0, i1, N):
    """Known finding D26: the internal Nelder-Mead fit of a fit-based
    estimator takes another path for the transformed array (several times
    more or fewer evaluations, both converge) and ends a few samples away.
    Counted per estimator; reported under its own key by run_shard (listed in
    known_findings.json) - more than two per shard is a plain violation."""
    if MTAP is None or not m.startswith("fit_"):
        return False
    ev = [e for e in MTAP.poc_log[-2:]]
    if len(ev) < 2 or not all(e["success"] and not e["aborted"] for e in ev):
        return False
    ratio = max(e["nfev"] for e in ev) / max(1, min(e["nfev"] for e in ev))
    # a few samples apart with clearly different paths (first witness), or
    # two different optima of the internal fit (second witness, sweep #9:
    # 999 vs 502 of 2000 after 2009 vs 3036 evaluations on a noise-free
    # curve; which one is reached flips with the rounding of the scaled
    # array).  Either way at most two per shard and estimator (run_shard).
    if not ((abs(i1 - i0) <= .05 * N and ratio >= 2) or ratio >= 1.3):
        return False
    BIFURCATIONS.setdefault(m, []).append((i0, i1, N))
    return True


def known_witness(rec, tap):
    """frozen input of D26 (vm/data): force array and constant shift for
    which fit_constant_polynomial moves by 9 of 300 samples"""
    import pathlib
    from nanite import poc
    here = pathlib.Path(__file__).resolve().parent.parent / "data"
    force = np.load(here / "c08_known_shift_bifurcation.npy")
    rec.event("frozen witness of the known shift bifurcation applied")
    n0 = len(MTAP.poc_log)
    i0 = poc.compute_poc(force.copy(), "fit_constant_polynomial")
    e0 = MTAP.poc_log[n0:]
    i1 = poc.compute_poc(force - 1.1851677696653206e-07,
                         "fit_constant_polynomial")
    if abs(i1 - i0) > 1:
        rec.violation("invariance/fit-based-estimator/optimiser-path-"
                      "bifurcation",
                      "fit_constant_polynomial: index %d -> %d under a "
                      "constant shift (internal optimisation: %s vs %s "
                      "evaluations)" % (i0, i1, e0[-1]["nfev"] if e0 else "?",
                                        MTAP.poc_log[-1]["nfev"]),
                      {"id": [0, -1], "curve": "frozen witness vm/data/"
                       "c08_known_shift_bifurcation.npy"})
    else:
        rec.event("frozen witness of the known shift bifurcation passes")


def curve_case(rec, tap, rng, cid, large_clean=False):
    mk = MODELS[int(rng.integers(4))]
    N = int(rng.choice([300, 800, 2000]))
    if large_clean:
        # long noise-free curves of the quadratic models: the internal
        # optimisations of the fit-based estimators need the most steps here
        mk = ["hertz_cone", "hertz_pyr3s"][int(rng.integers(2))]
        N = int(rng.choice([1200, 2500, 4000]))
    base_frac = float(rng.uniform(.25, .8))
    zmax = 10 ** rng.uniform(-6.3, -5.5)
    zmin = -zmax * (1 - base_frac) / base_frac
    prm = gen.draw_params(rng, mk)
    if "R" in prm:
        prm["R"] = max(prm["R"], 1.2 * abs(zmin))   # depth <= R
    z = np.linspace(zmax, zmin, N)
    f = ref.force(mk, z, dict(prm, contact_point=0.0, baseline=0.0))
    Fmax = float(f.max())
    noise = float(rng.choice([0, 0, .002, .01, .03]))
    tilt = float(rng.choice([0, 0, 0, .05, -.05]))
    offs = float(rng.choice([0, rng.uniform(-3, 3)]))
    if large_clean:
        noise = tilt = 0.0
        rec.event("long noise-free quadratic curves")
    f = f + rng.normal(0, 1, N) * noise * Fmax \
        + tilt * Fmax * np.linspace(0, 1, N) + offs * Fmax
    force = np.concatenate([f, f[::-1][:N // 2]])
    true = int(np.argmin(np.abs(z)))
    clean = noise == 0 and tilt == 0
    case = {"id": cid, "kind": "curve", "model": mk, "N": N,
            "base_frac": base_frac, "noise": noise, "tilt": tilt,
            "offset": offs, "Fmax": Fmax}
    rec.sample(case, limit=2)
    from nanite import poc
    for m in [p.identifier for p in poc.POC_METHODS]:
        if large_clean and not m.startswith("fit_"):
            continue
        rec.evaluated(dg=(m, force))
        rec.event("curve estimates")
        n_log = len(MTAP.poc_log) if MTAP is not None else 0
        i0 = estimate(rec, tap, m, force.copy(), case, "curve")
        if i0 is None:
            continue
        if MTAP is not None:
            judge_internal(rec, m, MTAP.poc_log[n_log:], case, large_clean)
        if noise == 0 and tilt < 0 and m == "deviation_from_baseline":
            # noise-free curves whose baseline drifts DOWN by 5 % of the
            # maximum force: the threshold estimator still finds the rise
            # (unchanged tree: error <= 0.11 N in 300 curves; bound 0.25 N)
            err = abs(i0 - true) / N
            rec.maximum("downward-drift error/N " + m, err)
            rec.event("downward-drift estimates " + m)
            acc = ACC_STATS.setdefault(m + " (downward drift)", [0, 0, None])
            acc[0] += 1
            if err > .25:
                acc[1] += 1
                if acc[2] is None:
                    acc[2] = ("|i-true|/N = %.3f > 0.25 (i=%d true=%d) on a "
                              "noise-free curve with downward baseline "
                              "drift" % (err, i0, true), dict(case, method=m))
        if clean:
            err = abs(i0 - true) / N
            rec.maximum("clean-curve error/N " + m, err)
            rec.event("clean-curve estimates " + m)
            # the fit-based estimators occasionally fail outright on a clean
            # curve (2 of ~8000 on the unchanged tree): the accuracy claim is
            # judged per shard as "at most 2 % (and fewer than 3) outliers"
            acc = ACC_STATS.setdefault(m, [0, 0, None])
            acc[0] += 1
            if err > ACC[m]:
                acc[1] += 1
                rec.event("clean-curve accuracy outliers " + m)
                if acc[2] is None:
                    acc[2] = ("|i-true|/N = %.3f > %.2f (i=%d true=%d)"
                              % (err, ACC[m], i0, true), dict(case, method=m))
        e2 = int(rng.integers(-40, 41))
        sc = float(10 ** rng.uniform(-3, 3))
        sh = float(rng.uniform(-10, 10) * Fmax)
        for kind, g, lim in [("pow2-scale", force * 2.0 ** e2, 0),
                             ("scale", force * sc, 1),
                             ("shift", force + sh, 1)]:
            rec.evaluated(dg=(m, kind, g))
            n_log = len(MTAP.poc_log) if MTAP is not None else 0
            i1 = estimate(rec, tap, m, g, dict(case, transform=kind),
                          "curve")
            if MTAP is not None:
                judge_internal(rec, m, MTAP.poc_log[n_log:],
                               dict(case, transform=kind), large_clean)
            if i1 is None:
                continue
            rec.maximum("index change under %s" % kind, abs(i1 - i0))
            if abs(i1 - i0) > lim and bifurcation(m, i0, i1, N):
                continue
            rec.check(abs(i1 - i0) <= lim, "invariance/%s/%s" % (kind, m),
                      "index %d -> %d under %s (2^%d / x%r / +%r)"
                      % (i0, i1, kind, e2, sc, sh),
                      dict(case, transform=kind))


def degenerate_families(rng, n_random):
    for n in range(1, 9):
        for vals in itertools.product([0., 1., 2.], repeat=n):
            yield "enum012", np.array(vals)
    for _ in range(n_random):
        n = int(rng.choice([1, 2, 3, 5, 8, 10, 20, 50, 60, 100, 200, 1000]))
        yield "constant", np.full(n, rng.normal())
        yield "decreasing", np.sort(rng.normal(size=n))[::-1].copy()
        yield "increasing-no-baseline", np.sort(rng.normal(size=n)).copy()
        yield "noise", rng.normal(size=n)
        yield "power-no-baseline", np.linspace(0, 1, n) ** rng.uniform(1, 3)
        yield "short", rng.normal(size=int(rng.integers(1, 12)))
        # raw digitiser counts / integer ramps: integer-typed arrays
        dt = [np.int64, np.int32, np.uint16][int(rng.integers(3))]
        yield "integer-power-no-baseline", (np.arange(n) ** 2).astype(dt)
        base = np.concatenate([np.zeros(n, dtype=np.int64),
                               np.arange(1, n + 1) ** 2])
        yield "integer-baseline-then-power", base.astype(
            np.int64 if base.max() > 60000 else dt)


def run_degenerate(rec, tap, rng, tier, shard, nshards):
    from nanite import poc
    meths = [p.identifier for p in poc.POC_METHODS]
    for j, (fam, arr) in enumerate(degenerate_families(
            rng, N_RANDOM_DEGEN[tier])):
        # the enumerated family is split over the shards, the random ones
        # are drawn per shard
        if fam == "enum012" and j % nshards != shard:
            continue
        case = {"kind": "degenerate", "family": fam, "array": arr}
        for m in meths:
            rec.evaluated(dg=(m, arr))
            rec.event("degenerate estimates " + fam)
            estimate(rec, tap, m, arr.copy(), dict(case, method=m),
                     "degenerate")
    rec.sample({"kind": "degenerate", "family": "enum012",
                "array": [0., 1., 2., 2.]}, limit=3)


def run_shard(rec, tier, seed, shard, nshards):
    global MTAP
    tap = Tap()
    tap.install()
    MTAP = fitlab.MinimizeTap().install()
    try:
        for i in range(N_CURVES[tier]):
            curve_case(rec, tap, core.case_rng(seed, ID, shard, i), [shard, i])
        for i in range(N_LARGE[tier]):
            cid = [shard, 2 * 10 ** 6 + i]
            curve_case(rec, tap, core.case_rng(seed, ID, cid[0], cid[1]), cid,
                       large_clean=True)
        for m, (tot, bad, first) in ACC_STATS.items():
            if bad >= 3 and bad > .02 * tot:
                rec.violation("accuracy/" + m, "%d of %d clean-curve "
                              "estimates outside the stated fraction, e.g. %s"
                              % (bad, tot, first[0]), first[1])
        for m, lst in BIFURCATIONS.items():
            rec.event("optimiser path bifurcations (known finding D26)",
                      len(lst))
            rec.violation("invariance/fit-based-estimator/optimiser-path-"
                          "bifurcation",
                          "%s: index %d -> %d (N=%d) under a scale / shift; "
                          "the internal Nelder-Mead fit took another path"
                          % ((m,) + lst[0]), {"id": [shard, -2],
                                              "method": m})
            rec.check(len(lst) <= 2,
                      "invariance/fit-based-estimator/bifurcations-frequent",
                      "%d path bifurcations of %s in one shard" % (len(lst),
                                                                   m),
                      {"id": [shard, -2], "method": m})
        if shard == 0:
            known_witness(rec, tap)
        for m, (n, first) in ABORTS.items():
            # (never seen on the unchanged tree; two per shard rule out a
            #  freak case)
            rec.check(n < 2, "internal-optimisation-out-of-budget/" + m,
                      "%d internal optimisations of %s on well-formed curves "
                      "ran out of their evaluation budget (estimator falls "
                      "back to the middle of the data)" % (n, m), first)
        run_degenerate(rec, tap, core.case_rng(seed, ID, shard, 10 ** 6),
                       tier, shard, nshards)
    finally:
        tap.remove()
        MTAP.remove()
        MTAP = None
    rec.event("estimator calls seen by the tap", tap.calls)


def replay(rec, case):
    global MTAP
    c = case["case"]
    tap = Tap()
    tap.install()
    MTAP = fitlab.MinimizeTap().install()
    try:
        if c.get("kind") == "curve":
            cid = c["id"]
            curve_case(rec, tap, core.case_rng(case["seed"], ID, cid[0],
                                               cid[1]), cid,
                       large_clean=cid[1] >= 2 * 10 ** 6)
            for m, lst in BIFURCATIONS.items():
                rec.violation("invariance/fit-based-estimator/optimiser-"
                              "path-bifurcation",
                              "%s: index %d -> %d (N=%d) under a scale / "
                              "shift; the internal Nelder-Mead fit took "
                              "another path" % ((m,) + lst[0]),
                              {"id": cid, "method": m})
        else:
            arr = core.unjson(c["array"])
            from nanite import poc
            for m in [p.identifier for p in poc.POC_METHODS]:
                estimate(rec, tap, m, np.array(arr, dtype=float), c,
                         "degenerate")
    finally:
        tap.remove()
        MTAP.remove()
        MTAP = None
