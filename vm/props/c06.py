"""C06 - preprocessing is a pure, repeatable function of raw data, steps and
options; rejected requests are not remembered."""
import copy
import os
import sys

import numpy as np

from .. import core, gen, fitlab
from . import c14

ID = "C06"
LEVEL = "exploration"
ANCHORS = [("preproc.py", "apply"),
           ("indent.py", "Indentation.apply_preprocessing"),
           ("indent.py", "Indentation.fit_model"),
           ("preproc.py", "preproc_correct_force_slope"),
           ("preproc.py", "preproc_smooth_height")]
MIN_EVALS = {"quick": 1500, "thorough": 30000}
MIN_EVENTS = {"accepted requests compared with a fresh object": 600,
              "rejected requests": 300,
              "rejected requests repeated": 200,
              "requests through fit_model": 200,
              "last accepted request re-issued after a rejection": 60}
TIMEOUT = {"quick": 900, "thorough": 3500}
N_SEQ = {"quick": 26, "thorough": 600}     # per shard
RULE = ("case = one sequence of 2..8 preprocessing requests (valid pipelines "
        "= autosorted requirement-closed selections x options for the 6 "
        "contact-point methods, 3 regions, 2 strategies; invalid ones: "
        "unknown step, missing prerequisite, invalid method/region/strategy, "
        "unknown option name) issued through apply_preprocessing or "
        "fit_model(preprocessing=...), interleaved with fits; one oracle "
        "evaluation per request; distinct by digest of (curve, request "
        "sequence so far); non-trivial = request differs from the previous")
ASSUMPTIONS = [
    "fresh object = new Indentation from the same raw arrays / file given "
    "the same request once; all columns compared bytewise",
    "a request counts as rejected when the call raises",
    "audit hook: 'open' events on the measurement file are logged; opening it "
    "for writing is a violation"]

POC = ["deviation_from_baseline", "fit_constant_line",
       "fit_constant_polynomial", "fit_line_polynomial",
       "frechet_direct_path", "gradient_zero_crossing"]
REGIONS = ["baseline", "approach", "all"]
STRATS = ["drift", "shift"]

OPEN_LOG = []
_HOOKED = [False]


def install_audit():
    if _HOOKED[0]:
        return
    _HOOKED[0] = True

    def hook(event, args):
        if event == "open" and OPEN_LOG is not None:
            try:
                path, mode = args[0], args[1]
            except Exception:
                return
            if mode is not None and not isinstance(path, int):
                try:
                    OPEN_LOG.append((os.fspath(path), str(mode)))
                except TypeError:
                    pass
    sys.addaudithook(hook)


def shards(tier):
    return 16


RULES0 = []


def toposort(sel, req, opt):
    """harness' own ordering of a requirement-closed selection (stable
    topological sort on required and present optional predecessors); the
    generator must not depend on nanite's autosort"""
    out, rest = [], list(sel)
    while rest:
        for p_ in rest:
            pre = [r for r in req[p_] + opt[p_] if r in sel]
            if all(r in out for r in pre):
                out.append(p_)
                rest.remove(p_)
                break
        else:       # cannot happen for the shipped rules (no cycles)
            out += rest
            break
    return out


def valid_request(rng, req, opt):
    ids = sorted(req)
    from nanite import preproc
    if rng.random() < .1:
        # the empty pipeline is a request like any other: raw columns
        return [], {}
    while True:
        n = int(rng.integers(1, 7))
        sel = [ids[i] for i in rng.permutation(6)[:n]]
        # close under requirements
        for p in list(sel):
            for r in req[p]:
                if r not in sel:
                    sel.append(r)
        for p in list(sel):
            for r in req[p]:
                if r not in sel:
                    sel.append(r)
        steps = toposort(sel, req, opt)
        if "compute_tip_position" in steps:
            break
    options = {}
    if "correct_tip_offset" in steps and rng.random() < .7:
        options["correct_tip_offset"] = {
            "method": POC[int(rng.integers(6))]}
    if "correct_force_slope" in steps and rng.random() < .8:
        o = {}
        if rng.random() < .8:
            o["region"] = REGIONS[int(rng.integers(3))]
        if rng.random() < .8:
            o["strategy"] = STRATS[int(rng.integers(2))]
        options["correct_force_slope"] = o
    return steps, options


def invalid_request(rng, req, opt):
    steps, options = valid_request(rng, req, opt)
    kind = int(rng.integers(6))
    if kind == 0:
        steps = list(steps)
        steps.insert(int(rng.integers(len(steps) + 1)),
                     ["bogus", "smooth", "Correct_tip_offset"][
                         int(rng.integers(3))])
        what = "unknown-step"
    elif kind == 1:
        steps = [["correct_tip_offset"], ["correct_force_slope"],
                 ["correct_split_approach_retract"],
                 ["correct_force_offset", "correct_force_slope",
                  "compute_tip_position", "correct_tip_offset"],
                 ["correct_tip_offset", "compute_tip_position"]][
            int(rng.integers(5))]
        options = {}
        if rng.random() < .5:
            # a valid pipeline in which one step was moved in front of (or
            # is missing) a step it requires
            steps0, _ = valid_request(rng, req, opt)
            cand = [p_ for p_ in steps0 if req[p_]]
            if cand:
                p_ = cand[int(rng.integers(len(cand)))]
                steps = [x for x in steps0 if x != p_]
                if rng.random() < .5:
                    steps = [x for x in steps if x not in req[p_]] + [p_]
                else:
                    steps.insert(0, p_)
        what = "missing-prerequisite"
    elif kind == 2:
        steps = ["compute_tip_position", "correct_tip_offset"]
        options = {"correct_tip_offset": {"method": "no_such_method"}}
        what = "invalid-poc-method"
    elif kind == 3:
        steps = ["compute_tip_position", "correct_tip_offset",
                 "correct_force_slope"]
        options = {"correct_force_slope": {"region": "nowhere"}}
        what = "invalid-region"
    elif kind == 4:
        steps = ["compute_tip_position", "correct_tip_offset",
                 "correct_force_slope"]
        options = {"correct_force_slope": {"strategy": "magic"}}
        what = "invalid-strategy"
    else:
        steps = ["compute_tip_position", "correct_tip_offset"]
        options = {"correct_tip_offset": {"methode": POC[0]}}
        what = "unknown-option-name"
    return steps, options, what


def columns_fp(idnt):
    out = {}
    for c in idnt.columns:
        if c in ("fit", "fit residuals", "fit range"):
            continue
        out[c] = core.fp(np.asarray(idnt[c]))
    return out


def raw_fp(idnt):
    return {k: core.fp(np.asarray(idnt._raw_data[k]))
            for k in sorted(idnt._raw_data.keys())}


def issue(idnt, steps, options, via_fit, details=False, in_place=False):
    steps, options = copy.deepcopy(steps), copy.deepcopy(options)
    try:
        if in_place:
            # the public attributes edited in place, then applied
            idnt.preprocessing[:] = steps
            idnt.preprocessing_options.clear()
            idnt.preprocessing_options.update(options)
            idnt.apply_preprocessing(ret_details=details)
        elif via_fit:
            idnt.fit_model(preprocessing=steps,
                           preprocessing_options=options)
        else:
            idnt.apply_preprocessing(steps, options, ret_details=details)
    except BaseException as e:  # noqa
        return "EXC:" + type(e).__name__ + ":" + str(e)[:160]
    return "ok"


def fresh_columns(factory, steps, options):
    f = factory()
    try:
        f.apply_preprocessing(copy.deepcopy(steps), copy.deepcopy(options))
    except BaseException as e:  # noqa
        return "EXC:" + type(e).__name__ + ":" + str(e)[:160]
    return columns_fp(f)


def make_factory(rng):
    if rng.random() < .2:
        files = gen.recorded_single_curves()
        path = files[int(rng.integers(len(files)))]
        return (lambda: gen.load_recorded(path)), "recorded:" + path.name, \
            str(path)
    spec = fitlab.draw_curve_spec(
        rng, models=["hertz_para", "hertz_cone"], npts=(200, 350, 700),
        noise_snr=(100, 30))
    spec["zmax"] = float(rng.uniform(1.5e-6, 3e-6))
    spec["zmin"] = -float(rng.uniform(1e-6, 2.5e-6))
    rs = np.random.default_rng(spec["noise_seed"])
    span = float(gen.ref.force(spec["model"], np.array([spec["zmin"]]),
                               dict(spec["params"], contact_point=spec["cp"],
                                    baseline=0.0))[0])
    data, _ = gen.make_arrays(rs, spec["model"], spec["params"],
                              cp=spec["cp"], baseline=spec["baseline"],
                              n_app=spec["n"], n_ret=spec["n"],
                              zmax=spec["zmax"], zmin=spec["zmin"],
                              noise=span / spec["snr"],
                              tilt=float(rng.choice([0, .05 * span / 4e-6])))
    wt = bool(rng.random() < .3)
    return (lambda: gen.make_indentation(data, with_tip=wt)), \
        {"synthetic": spec, "with_tip": wt}, None


def run_sequence(rec, rng, cid):
    # (the order rules as they were when the process started: a request
    #  must not be able to change what counts as valid later on)
    if not RULES0:
        RULES0.extend(copy.deepcopy(c14.rules()))
    req, opt = copy.deepcopy(RULES0[0]), copy.deepcopy(RULES0[1])
    factory, desc, path = make_factory(rng)
    del OPEN_LOG[:]
    idnt = factory()
    raw0 = raw_fp(idnt)
    hist = []
    prev = None
    last_accepted = None
    after_rejection = False
    for step in range(int(rng.integers(2, 9))):
        invalid = rng.random() < .35
        if after_rejection and last_accepted is not None and \
                rng.random() < .6:
            # the pipeline that was in effect before the rejected request is
            # requested again: it must really be (re-)applied
            steps, options = copy.deepcopy(last_accepted)
            what = "valid (last accepted request again, after a rejection)"
            rec.event("last accepted request re-issued after a rejection")
        elif invalid:
            steps, options, what = invalid_request(rng, req, opt)
        else:
            steps, options = valid_request(rng, req, opt)
            what = "valid"
            if prev is not None and rng.random() < .2:
                steps, options = copy.deepcopy(prev)    # same again
            elif prev is not None and rng.random() < .25:
                # the applied pipeline extended by one more step (same
                # options), typically after a fit
                cand = [p_ for p_ in sorted(req) if p_ not in prev[0]
                        and all(r in prev[0] for r in req[p_])]
                rng.shuffle(cand)
                for p_ in cand:
                    ext = toposort(list(prev[0]) + [p_], req, opt)
                    if ext[:len(prev[0])] == list(prev[0]):
                        steps, options = ext, copy.deepcopy(prev[1])
                        what = "valid (applied pipeline extended)"
                        rec.event("requests that extend the applied "
                                  "pipeline")
                        try:
                            idnt.fit_model()
                            hist.append(["fit_model()", "ok"])
                        except BaseException as e:  # noqa
                            hist.append(["fit_model()",
                                         "EXC:" + type(e).__name__])
                        break
        via_fit = bool(rng.random() < .3)
        if rng.random() < .25:
            try:
                idnt.fit_model()
                hist.append(["fit_model()", "ok"])
            except BaseException as e:  # noqa
                hist.append(["fit_model()", "EXC:" + type(e).__name__])
        details = bool(not via_fit and rng.random() < .25)
        if details:
            rec.event("requests asking for preprocessing details")
        applied_before = (copy.deepcopy(idnt.preprocessing),
                          copy.deepcopy(idnt.preprocessing_options))
        in_place = bool(not via_fit and rng.random() < .2 and
                        isinstance(idnt.preprocessing, list) and
                        isinstance(idnt.preprocessing_options, dict))
        if in_place:
            rec.event("requests made by editing the curve's attributes in "
                      "place")
        res = issue(idnt, steps, options, via_fit, details, in_place)
        hist.append([{"steps": steps, "options": options,
                      "via_fit_model": via_fit, "kind": what,
                      "ret_details": details,
                      "attributes_edited_in_place": in_place}, res])
        # a curve that was never asked for anything reports nothing
        nf = factory()
        rec.check(nf.preprocessing == [] and nf.preprocessing_options == {}
                  and "preprocessing" not in nf.fit_properties,
                  "new-curve-reports-preprocessing",
                  "a newly created curve reports the pipeline %r / %r"
                  % (nf.preprocessing, nf.preprocessing_options),
                  {"id": cid, "curve": desc, "history": hist})
        case = {"id": cid, "curve": desc, "history": hist}
        rec.evaluated(dg=(desc, hist),
                      nontrivial=prev != (steps, options))
        if via_fit:
            rec.event("requests through fit_model")
        rec.check(raw_fp(idnt) == raw0, "raw-data-modified",
                  "recorded raw data changed by request %r" % (steps,), case)
        fresh = fresh_columns(factory, steps, options)
        accepted = res == "ok"
        # a request through fit_model may be accepted by preprocessing and
        # fail later in the fit; what matters is preprocessing acceptance
        if via_fit and not accepted and not isinstance(fresh, str):
            accepted = idnt.preprocessing == steps
        if accepted:
            rec.event("accepted requests compared with a fresh object")
            if isinstance(fresh, str):
                rec.violation("accepted-but-fresh-object-rejects",
                              "request %r/%r accepted after history, but "
                              "rejected (%s) on a fresh object"
                              % (steps, options, fresh), case)
            else:
                now = columns_fp(idnt)
                diff = sorted(c for c in set(now) | set(fresh)
                              if now.get(c) != fresh.get(c))
                rec.check(not diff, "columns-differ-from-fresh-object",
                          "columns %s differ from a fresh object given the "
                          "same request once" % diff, case)
                if not via_fit and applied_before != (steps, options):
                    # a new pipeline was applied: columns of an earlier fit
                    # belong to other data and must be gone
                    stale = [c for c in ("fit", "fit residuals", "fit range")
                             if c in idnt.columns]
                    rec.event("new pipelines checked for left-over fit "
                              "columns")
                    rec.check(not stale, "stale-fit-columns-after-new-"
                              "pipeline", "columns %s of an earlier fit "
                              "survive a new preprocessing pipeline" % stale,
                              case)
                rec.check(idnt.preprocessing == steps and
                          idnt.preprocessing_options == options,
                          "accepted-request-not-reported",
                          "idnt.preprocessing = %r / %r"
                          % (idnt.preprocessing, idnt.preprocessing_options),
                          case)
                # re-applying changes nothing
                res2 = issue(idnt, steps, options, False)
                rec.check(res2 == "ok" and columns_fp(idnt) == now,
                          "reapplication-changes-data",
                          "re-applying the same pipeline: %s / columns "
                          "changed" % res2, case)
                if details:
                    # the details dictionary handed out belongs to the
                    # caller: editing it (e.g. converting units for a plot)
                    # must not change the curve
                    try:
                        det = idnt.apply_preprocessing(
                            copy.deepcopy(steps), copy.deepcopy(options),
                            ret_details=True)
                    except BaseException:  # noqa
                        det = None

                    def arrays(o):
                        if isinstance(o, np.ndarray):
                            yield o
                        elif isinstance(o, dict):
                            for v in o.values():
                                yield from arrays(v)
                        elif isinstance(o, (list, tuple)):
                            for v in o:
                                yield from arrays(v)
                    for a_ in arrays(det):
                        if a_.flags.writeable and a_.dtype.kind == "f":
                            a_ *= 1e9
                    rec.event("returned details edited in place")
                    rec.check(columns_fp(idnt) == now and
                              raw_fp(idnt) == raw0,
                              "details-alias-curve-data",
                              "editing the returned preprocessing details "
                              "in place changed the curve", case)
                prev = (copy.deepcopy(steps), copy.deepcopy(options))
                last_accepted = prev
                after_rejection = False
        else:
            after_rejection = True
            rec.event("rejected requests")
            if what.startswith("valid") and isinstance(fresh, str) and any(
                    t in fresh for t in ("requires the steps",
                                         "step order", "does not exist")):
                # a request that satisfies every order rule (closed under
                # requirements, sorted) and names valid options is rejected
                # even on a fresh object: the rules themselves changed
                # (e.g. global state left behind by an earlier request)
                rec.event("valid requests rejected on the curve and on a "
                          "fresh object")
                rec.violation("valid-request-rejected",
                              "request %r/%r obeys the order rules but is "
                              "rejected (%s; fresh object: %s)"
                              % (steps, options, res, fresh), case)
            rec.check(isinstance(fresh, str),
                      "rejected-but-fresh-object-accepts",
                      "request %r/%r raised %s after this history but is "
                      "accepted on a fresh object" % (steps, options, res),
                      case)
            fp = idnt.fit_properties
            rec.check(idnt.preprocessing != steps or
                      idnt.preprocessing_options != options,
                      "rejected-request-reported-as-applied",
                      "after the rejected request idnt.preprocessing == %r"
                      % (steps,), case)
            rec.check(not (fp.get("preprocessing") == steps and
                           fp.get("preprocessing_options") == options),
                      "rejected-request-remembered",
                      "rejected request %r/%r (%s) is stored as the "
                      "remembered pipeline in fit_properties"
                      % (steps, options, what), case)
            res2 = issue(idnt, steps, options, via_fit)
            rec.event("rejected requests repeated")
            rec.check(res2 != "ok", "rejected-request-accepted-on-repeat",
                      "request %r/%r (%s): first %s, repeated: accepted"
                      % (steps, options, what, res), case)
            prev = None
    if path is not None:
        # audit log of the whole sequence (loading, lazy column reads,
        # requests, fits, fresh objects)
        for pth, mode in list(OPEN_LOG):
            if pth == path:
                rec.event("open events on the measurement file")
                rec.check(not any(m in mode for m in "wa+x"),
                          "measurement-file-opened-for-writing",
                          "open(%s, %r)" % (pth, mode),
                          {"id": cid, "curve": desc, "history": hist})
    rec.sample({"curve": desc if isinstance(desc, str) else "synthetic",
                "history": hist}, limit=2)


def _run_shard(rec, tier, seed, shard, nshards):
    install_audit()
    for i in range(N_SEQ[tier]):
        run_sequence(rec, core.case_rng(seed, ID, shard, i), [shard, i])


def replay(rec, case):
    install_audit()
    cid = case["case"]["id"]
    run_sequence(rec, core.case_rng(case["seed"], ID, cid[0], cid[1]), cid)


def run_shard(rec, tier, seed, shard, nshards):
    state0 = core.library_state()
    try:
        _run_shard(rec, tier, seed, shard, nshards)
    finally:
        core.check_library_state(rec, state0, {"id": [shard, -1]})
