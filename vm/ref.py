"""Independent reference implementations (oracle side).

Written from the publications quoted in the model docstrings, in a different
algebraic arrangement than nanite's `model_func`s, plain float64.
"""
import math

import numpy as np


def _depth(x, cp):
    """indentation depth: cp - x where positive, else 0 (no contact)"""
    d = cp - np.asarray(x, dtype=float)
    return np.where(d > 0, d, 0.0)


def hertz_para(x, E, R, nu, contact_point, baseline):
    d = _depth(x, contact_point)
    pref = (4.0 * E * math.sqrt(R)) / (3.0 * (1.0 - nu * nu))
    return pref * (d * np.sqrt(d)) + baseline


def hertz_cone(x, E, alpha, nu, contact_point, baseline):
    d = _depth(x, contact_point)
    pref = 2.0 * math.tan(math.radians(alpha)) * E / (math.pi * (1 - nu * nu))
    return pref * (d * d) + baseline


def hertz_pyr3s(x, E, alpha, nu, contact_point, baseline):
    d = _depth(x, contact_point)
    # Bilodeau (1992): 0.8887 tan(alpha) E/(1-nu^2) delta^2
    pref = 0.8887 * math.tan(math.radians(alpha)) * E / (1 - nu * nu)
    return pref * (d * d) + baseline


SPH_COEFF = (1.0, -1.0 / 10, -1.0 / 840, 11.0 / 15120, 1357.0 / 6652800)


def sneddon_spher_approx(x, E, R, nu, contact_point, baseline):
    d = _depth(x, contact_point)
    q = d / R
    # Horner evaluation of the documented series
    series = SPH_COEFF[4]
    for c in (SPH_COEFF[3], SPH_COEFF[2], SPH_COEFF[1], SPH_COEFF[0]):
        series = series * q + c
    pref = (4.0 * E * math.sqrt(R)) / (3.0 * (1.0 - nu * nu))
    return pref * (d * np.sqrt(d)) * series + baseline


def power_layer_clifford_2009(x, E_S, E_L, R, nu_S, nu_L, t, contact_point,
                              baseline):
    d = _depth(x, contact_point)
    P, n, m, B_S, B_L = 2.25, 1.5, 2.0 / 3.0, 0.22, 1.92
    a = np.sqrt(R * d)                       # contact radius (eq. 9)
    xi = (a / t) * (E_L / E_S) ** m \
        * ((1 - B_S * nu_S ** 2) / (1 - B_L * nu_L ** 2))
    pxn = P * xi ** n
    frac = pxn / (1 + pxn)
    Estar = E_L + (E_S - E_L) * frac        # eq. 10
    return (4.0 / 3.0) * Estar * math.sqrt(R) * (d * np.sqrt(d)) + baseline


FUNCS = {"hertz_para": hertz_para, "hertz_cone": hertz_cone,
         "hertz_pyr3s": hertz_pyr3s,
         "sneddon_spher_approx": sneddon_spher_approx,
         "power_layer_clifford_2009": power_layer_clifford_2009}


def force(model_key, x, params):
    return FUNCS[model_key](x, **params)


def sneddon_exact(a, E, R, nu):
    """Exact Sneddon solution for a rigid sphere, parametrised by the
    contact radius a (0 < a < R): returns (delta, F)."""
    a = np.asarray(a, dtype=float)
    lg = np.log((R + a) / (R - a))
    delta = 0.5 * a * lg
    F = E / (1 - nu * nu) * (0.5 * (R * R + a * a) * lg - a * R)
    return delta, F


def cp_weights(x, cp, weight_cp):
    """contact point weights as stated in C04"""
    x = np.asarray(x, dtype=float)
    if not weight_cp:
        return np.ones_like(x)
    return np.minimum(np.abs(x - cp) / weight_cp, 1.0)
