"""Harness-defined fit models (registered at run time).

They are deliberately awkward: order sensitive, with ancillaries, with an
expression-constrained parameter, with their own model/residual functions.
"""
import types

import numpy as np

SEEN_DELTA = []      # log of what the order-sensitive user function received


def _module(**attrs):
    """a module object (like a user's model file once imported) carrying the
    given attributes"""
    m = types.ModuleType("vm_harness_model_" + attrs.get("model_key", "x"))
    for k, v in attrs.items():
        setattr(m, k, v)
    return m


def _defaults_factory(spec):
    def get_parameter_defaults():
        import lmfit
        params = lmfit.Parameters()
        for name, kw in spec:
            params.add(name, **kw)
        return params
    return get_parameter_defaults


def hm_order_func(delta, E, R, nu, contact_point=0, baseline=0):
    """order sensitive Hertz: uses a running maximum of the depth, which is
    only the depth itself if delta arrives approach-ordered (descending)"""
    SEEN_DELTA.append((float(delta[0]), float(delta[-1]), delta.size))
    aa = 4/3 * E/(1-nu**2)*np.sqrt(R)
    root = contact_point - delta
    run = np.maximum.accumulate(np.where(root > 0, root, 0.0))
    return aa * run**(3/2) + baseline


def hm_long_func(delta, E, R, nu, contact_point=0, baseline=0):
    """paraboloid with a long-range repulsion before contact (continuous at
    contact, non-decreasing with depth, linear in the modulus)"""
    aa = 4/3 * E/(1-nu**2)*np.sqrt(R)
    root = contact_point - delta
    a0 = (1e-7)**(3/2)
    pos = root > 0
    bb = a0 * np.exp(np.where(pos, 0.0, root) / 1e-7)
    bb[pos] = a0 + root[pos]**(3/2)
    return aa * bb + baseline


def hm_sig_func(delta, nu, R, E, baseline=0, contact_point=0):
    """paraboloid whose argument order differs from parameter_keys (legal:
    nanite warns about it and passes the parameters by keyword)"""
    aa = 4/3 * E/(1-nu**2)*np.sqrt(R)
    root = contact_point - delta
    bb = np.zeros_like(delta)
    pos = root > 0
    bb[pos] = root[pos]**(3/2)
    return aa * bb + baseline


def hm_anc_func(delta, E, alpha, nu, contact_point=0, baseline=0):
    aa = 2*np.tan(alpha*np.pi/180)/np.pi * E/(1-nu**2)
    root = contact_point - delta
    bb = np.zeros_like(delta)
    pos = root > 0
    bb[pos] = root[pos]**2
    return aa*bb + baseline


ANC_RETURN = {"E": np.nan, "alpha": np.nan, "other": np.nan,
              "contact_point": np.nan}


def hm_anc_compute(fd):
    return dict(ANC_RETURN)


def hm_expr_func(delta, E, R, nu, virtual_parameter, E1, contact_point=0,
                 baseline=0):
    aa1 = 4 / 3 * E1 / (1 - nu ** 2) * np.sqrt(R)
    root = contact_point - delta
    pos = root > 0
    bb = np.zeros_like(delta)
    bb[pos] = (root[pos]) ** (3 / 2)
    return aa1 * bb + baseline


def _own_model(params, x):
    if x[0] < x[-1]:
        return hm_expr_func(x[::-1], **params.valuesdict())[::-1]
    return hm_expr_func(x, **params.valuesdict())


def _own_residual(params, delta, force, weight_cp=5e-7):
    from nanite.model import residuals
    resid = force - _own_model(params, delta)
    if weight_cp:
        resid *= residuals.compute_contact_point_weights(
            cp=params["contact_point"].value, delta=delta,
            weight_dist=weight_cp)
    return resid


def build():
    """fresh module objects for the four harness models"""
    common = dict(valid_axes_x=["tip position"], valid_axes_y=["force"])
    para_spec = [("E", dict(value=3e3, min=0)),
                 ("R", dict(value=10e-6, min=0, vary=False)),
                 ("nu", dict(value=.5, min=0, max=.5, vary=False)),
                 ("contact_point", dict(value=0)),
                 ("baseline", dict(value=0))]
    para_names = ["Young's Modulus", "Tip Radius", "Poisson's Ratio",
                  "Contact Point", "Force Baseline"]
    m_order = _module(
        get_parameter_defaults=_defaults_factory(para_spec),
        model_doc="order sensitive", model_func=hm_order_func,
        model_key="hm_order", model_name="harness order-sensitive",
        parameter_keys=["E", "R", "nu", "contact_point", "baseline"],
        parameter_names=list(para_names),
        parameter_units=["Pa", "m", "", "m", "N"], **common)
    m_sig = _module(
        get_parameter_defaults=_defaults_factory(para_spec),
        model_doc="permuted signature", model_func=hm_sig_func,
        model_key="hm_sig", model_name="harness permuted signature",
        parameter_keys=["E", "R", "nu", "contact_point", "baseline"],
        parameter_names=list(para_names),
        parameter_units=["Pa", "m", "", "m", "N"], **common)
    m_long = _module(
        get_parameter_defaults=_defaults_factory(para_spec),
        model_doc="long range", model_func=hm_long_func,
        model_key="hm_long", model_name="harness long-range force",
        parameter_keys=["E", "R", "nu", "contact_point", "baseline"],
        parameter_names=list(para_names),
        parameter_units=["Pa", "m", "", "m", "N"], **common)
    cone_spec = [("E", dict(value=3e3, min=0)),
                 ("alpha", dict(value=25, min=0, max=90, vary=False)),
                 ("nu", dict(value=.5, min=0, max=.5, vary=False)),
                 ("contact_point", dict(value=0)),
                 ("baseline", dict(value=0))]
    m_anc = _module(
        get_parameter_defaults=_defaults_factory(cone_spec),
        model_doc="with ancillaries", model_func=hm_anc_func,
        model_key="hm_anc", model_name="harness ancillaries",
        parameter_keys=["E", "alpha", "nu", "contact_point", "baseline"],
        parameter_names=["Young's Modulus", "Half Cone Angle",
                         "Poisson's Ratio", "Contact Point",
                         "Force Baseline"],
        parameter_units=["Pa", "°", "", "m", "N"],
        compute_ancillaries=hm_anc_compute,
        parameter_anc_keys=["E", "alpha", "other", "contact_point"],
        parameter_anc_names=["anc E", "anc alpha", "anc other",
                             "anc contact point"],
        parameter_anc_units=["Pa", "°", "m", "m"], **common)
    expr_spec = [("E", dict(value=1e3, min=0, vary=False)),
                 ("R", dict(value=10e-6, vary=False)),
                 ("nu", dict(value=.5, vary=False)),
                 ("virtual_parameter", dict(value=10, min=0, vary=True)),
                 ("E1", dict(expr="virtual_parameter+E")),
                 ("contact_point", dict(value=0)),
                 ("baseline", dict(value=0))]
    expr_keys = ["E", "R", "nu", "virtual_parameter", "E1", "contact_point",
                 "baseline"]
    expr_names = ["Young's Modulus", "Tip Radius", "Poisson's Ratio",
                  "Virtual Parameter", "Another Modulus", "Contact Point",
                  "Force Baseline"]
    expr_units = ["Pa", "m", "", "Pa", "Pa", "m", "N"]
    m_expr = _module(
        get_parameter_defaults=_defaults_factory(expr_spec),
        model_doc="expression", model_func=hm_expr_func,
        model_key="hm_expr", model_name="harness expression",
        parameter_keys=list(expr_keys), parameter_names=list(expr_names),
        parameter_units=list(expr_units), **common)
    m_own = _module(
        get_parameter_defaults=_defaults_factory(expr_spec),
        model_doc="own model/residual", model_func=hm_expr_func,
        model_key="hm_own", model_name="harness own functions",
        parameter_keys=list(expr_keys), parameter_names=list(expr_names),
        parameter_units=list(expr_units), model=_own_model,
        residual=_own_residual, **common)
    return [m_order, m_anc, m_expr, m_own, m_sig, m_long]


MODULI = {"hertz_para": ["E"], "hertz_cone": ["E"], "hertz_pyr3s": ["E"],
          "sneddon_spher_approx": ["E"],
          "power_layer_clifford_2009": ["E_S", "E_L"],
          "hm_order": ["E"], "hm_anc": ["E"], "hm_sig": ["E"],
          "hm_long": ["E"],
          "hm_expr": ["E", "virtual_parameter"],
          "hm_own": ["E", "virtual_parameter"]}


def register_all():
    from nanite import model
    mods = build()
    for m in mods:
        model.register_model(m)
    return mods


def deregister_all(mods):
    from nanite import model
    for m in mods:
        if m.model_key in model.models_available:
            model.deregister_model(m)


def load_derived(mk, tmpdir, tag):
    """A user's module DERIVED from the shipped model `mk` (star import of
    the shipped module, own model function, own key), loaded from a file and
    registered.  -> (key, NaniteFitModel)"""
    import pathlib
    from nanite import model
    shipped = model.models_available[mk]
    modname = shipped.module.__name__
    keys = list(shipped.parameter_keys)
    sig = ", ".join(k + ("=0" if k in ("contact_point", "baseline") else "")
                    for k in keys)
    key = "derived_%s_%s" % (mk, tag)
    src = ("from %s import *  # noqa: F401,F403\n"
           "import %s as _parent\n\n\n"
           "def derived(delta, %s):\n"
           "    return 2.5 * _parent.model_func(delta, %s) + 3e-9\n\n\n"
           "model_doc = 'derived from %s'\n"
           "model_func = derived\n"
           "model_key = %r\n"
           "model_name = 'derived from %s'\n"
           % (modname, modname, sig, ", ".join(keys), mk, key, mk))
    f = pathlib.Path(tmpdir) / (key + ".py")
    f.write_text(src)
    return key, model.load_model_from_file(f, register=True)
