"""Shard planner, verdict and evidence writer.

usage: python -m vm.run <ID> [--tier quick|thorough] [--replay FILE]
exit 0 held / 1 violated / 2 inconclusive
"""
import argparse
import concurrent.futures as cf
import importlib
import json
import os
import re
import shutil
import subprocess
import sys
import tempfile
import time

from . import core

PY = sys.executable


def child_env():
    env = dict(os.environ)
    env["PYTHONPATH"] = "%s:%s" % (core.REPO / "src", core.VERIF)
    env.setdefault("PYTHONHASHSEED", "0")
    env["MPLBACKEND"] = "Agg"
    env["PYTHONDONTWRITEBYTECODE"] = "1"
    # one BLAS/OpenMP thread per shard: shards are the parallelism
    for k in ("OMP_NUM_THREADS", "OPENBLAS_NUM_THREADS", "MKL_NUM_THREADS"):
        env[k] = "1"
    env["NANITE_VERIF"] = "1"
    return env


def run_one(args, timeout, out):
    t0 = time.time()
    try:
        p = subprocess.run([PY, "-m", "vm.shard"] + args + [out],
                           cwd=str(core.VERIF), env=child_env(),
                           timeout=timeout, stdout=subprocess.PIPE,
                           stderr=subprocess.STDOUT, text=True)
        rc, txt = p.returncode, p.stdout[-3000:]
    except subprocess.TimeoutExpired as e:
        rc, txt = "timeout", (e.stdout or b"")[-1000:]
    res = None
    if os.path.exists(out):
        try:
            res = json.load(open(out))
        except Exception:
            res = None
    return {"rc": rc, "txt": txt if isinstance(txt, str) else
            txt.decode("utf8", "replace"), "res": res,
            "wall": time.time() - t0}


def merge(results):
    m = {"evaluations": 0, "digests": set(), "trivial": 0, "violations": [],
         "viol_counts": {}, "samples": [], "events": {}, "notes": {},
         "maxima": {}, "inconclusive": [], "cov_lines": set(),
         "cov_funcs": set()}
    for r in results:
        res = r["res"]
        if res is None:
            m["inconclusive"].append("shard produced no result (rc=%s): %s"
                                     % (r["rc"], r["txt"][-600:]))
            continue
        m["evaluations"] += res["evaluations"]
        m["digests"].update(res["digests"])
        m["trivial"] += res["trivial"]
        m["violations"] += res["violations"]
        for k, v in res["viol_counts"].items():
            m["viol_counts"][k] = m["viol_counts"].get(k, 0) + v
        if len(m["samples"]) < 6:
            m["samples"] += res["samples"][:2]
        for k, v in res["events"].items():
            m["events"][k] = m["events"].get(k, 0) + v
        for k, v in res["maxima"].items():
            m["maxima"][k] = max(m["maxima"].get(k, -1), v)
        for k, v in res["notes"].items():
            m["notes"].setdefault(k, v)
        m["inconclusive"] += res["inconclusive"]
        m["cov_lines"].update(tuple(x) for x in res.get("cov_lines", []))
        m["cov_funcs"].update(tuple(x) for x in res.get("cov_funcs", []))
    return m


def slug(s):
    return re.sub(r"[^A-Za-z0-9_.-]+", "_", s)[:80]


def main(argv=None):
    ap = argparse.ArgumentParser()
    ap.add_argument("prop")
    ap.add_argument("--tier", default=os.environ.get("VERIF_TIER", "quick"))
    ap.add_argument("--replay", default=None)
    ap.add_argument("--jobs", type=int,
                    default=int(os.environ.get("VERIF_JOBS", "16")))
    a = ap.parse_args(argv)
    prop = a.prop.upper()
    tier = a.tier if a.tier in ("quick", "thorough") else "quick"
    seed = int(os.environ.get("VERIF_SEED", "0") or 0)
    mod = importlib.import_module("vm.props." + prop.lower())
    timer = core.Timer()
    tmp = tempfile.mkdtemp(prefix="nv_%s_" % prop)
    os.environ["NV_SCRATCH"] = tmp
    try:
        if a.replay:
            results = [run_one([prop, "--replay", os.path.abspath(a.replay)],
                               mod.TIMEOUT[tier], os.path.join(tmp, "r.json"))]
        else:
            n = mod.shards(tier)
            jobs = max(1, min(a.jobs, n))
            with cf.ThreadPoolExecutor(jobs) as ex:
                futs = [ex.submit(run_one,
                                  [prop, tier, str(seed), str(i), str(n)],
                                  mod.TIMEOUT[tier],
                                  os.path.join(tmp, "s%d.json" % i))
                        for i in range(n)]
                results = [f.result() for f in futs]
    finally:
        shutil.rmtree(tmp, ignore_errors=True)
    m = merge(results)
    for r in results:
        if r["rc"] == "timeout":
            m["inconclusive"].append("watchdog: a shard exceeded %ss"
                                     % mod.TIMEOUT[tier])
        elif r["rc"] != 0:
            m["inconclusive"].append("shard exited with %s: %s"
                                     % (r["rc"], r["txt"][-600:]))

    # ---- classification against known findings
    known = [k for k in core.load_known() if k["property"] == prop]
    known_keys = {k["key"]: k for k in known if k.get("status") == "known"}
    seen_known = {}
    unlisted = {}
    for v in m["violations"]:
        if v["key"] in known_keys:
            seen_known.setdefault(v["key"], v)
        else:
            unlisted.setdefault(v["key"], v)
    for k in m["viol_counts"]:
        if k not in known_keys and k not in unlisted:
            unlisted[k] = {"key": k, "what": "(details dropped)", "case": None}

    # ---- anchors and minimum evaluation counts (only for full runs)
    if not a.replay:
        for anchor in getattr(mod, "ANCHORS", []):
            fn, qn = anchor
            if (fn, qn) not in m["cov_funcs"]:
                m["inconclusive"].append("anchor never entered: %s:%s"
                                         % (fn, qn))
        if m["evaluations"] < mod.MIN_EVALS[tier]:
            m["inconclusive"].append(
                "only %d oracle evaluations (< %d)"
                % (m["evaluations"], mod.MIN_EVALS[tier]))
        for name, least in getattr(mod, "MIN_EVENTS", {}).items():
            if m["events"].get(name, 0) < least:
                m["inconclusive"].append(
                    "monitor '%s' observed %d events (< %d)"
                    % (name, m["events"].get(name, 0), least))

    # ---- evidence
    nviol = sum(v for k, v in m["viol_counts"].items() if k not in known_keys)
    if not a.replay and not os.environ.get("VERIF_EVIDENCE_OFF"):
        anchor_files = sorted({f for f, _ in getattr(mod, "ANCHORS", [])})
        cov_by_file = {}
        for f, ln in m["cov_lines"]:
            cov_by_file[f] = cov_by_file.get(f, 0) + 1
        samples = m["samples"] or [{"note": "no sample recorded"}]
        coverage = {
            "evaluations": int(m["evaluations"]),
            "distinct_nontrivial": len(m["digests"]),
            "rule": mod.RULE,
            "samples": samples[:6],
            "trivial_cases": int(m["trivial"]),
            "monitor_events": m["events"],
            "observed_maxima": m["maxima"],
            "notes": m["notes"],
            "shards": len(results),
            "anchor_functions_entered": sorted(
                "%s:%s" % a_ for a_ in getattr(mod, "ANCHORS", [])
                if tuple(a_) in m["cov_funcs"]),
            "nanite_lines_executed_by_file": {f: cov_by_file.get(f, 0)
                                              for f in anchor_files},
            "nanite_lines_executed_total": len(m["cov_lines"]),
            "known_findings_seen": {k: m["viol_counts"].get(k, 0)
                                    for k in seen_known},
            "unlisted_violation_keys": {k: m["viol_counts"].get(k, 0)
                                        for k in unlisted},
            "inconclusive_reasons": m["inconclusive"][:10],
        }
        if getattr(mod, "EXHAUSTIVE", False):
            coverage["exhaustive"] = True
        ev = {"property_id": prop, "tier": tier, "seed": seed,
              "level": mod.LEVEL, "coverage": coverage,
              "assumptions": mod.ASSUMPTIONS, "wall_s": round(timer(), 2),
              "violations": int(nviol)}
        (core.VERIF / "evidence").mkdir(exist_ok=True)
        (core.VERIF / "evidence" / (prop + ".json")).write_text(
            json.dumps(ev, indent=1, sort_keys=True))

    # ---- verdict
    print("%s tier=%s seed=%d shards=%d evaluations=%d distinct=%d "
          "wall=%.1fs" % (prop, tier, seed, len(results), m["evaluations"],
                          len(m["digests"]), timer()))
    if m["events"]:
        print("  monitor events:", json.dumps(m["events"], sort_keys=True))
    if m["maxima"]:
        print("  observed maxima:", json.dumps(m["maxima"], sort_keys=True))
    for k, v in seen_known.items():
        print("KNOWN-FINDING: property=%s %s [%s] (%d cases this run)"
              % (prop, known_keys[k]["what"], k, m["viol_counts"].get(k, 0)))
    if unlisted:
        rdir = core.VERIF / "replay" / prop
        if os.environ.get("VERIF_EVIDENCE_OFF"):
            rdir = core.VERIF / "replay" / "_mutants" / prop
        rdir.mkdir(parents=True, exist_ok=True)
        for k, v in unlisted.items():
            path = rdir / (slug(k) + ".json")
            path.write_text(json.dumps(
                {"property": prop, "tier": tier, "seed": seed, "key": k,
                 "what": v["what"], "case": v["case"]}, indent=1))
            print("  violation [%s] x%d: %s" % (k, m["viol_counts"].get(k, 1),
                                               v["what"]))
            print("VIOLATION property=%s replay=%s" % (prop, path))
        return 1
    if m["inconclusive"]:
        for r in m["inconclusive"][:10]:
            print("INCONCLUSIVE: %s" % r)
        return 2
    print("HELD property=%s (on everything observed)" % prop)
    return 0


if __name__ == "__main__":
    sys.exit(main())
