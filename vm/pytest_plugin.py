"""pytest plugin: run the repository's own test-suite as an additional,
realistic workload under the C04 consistency monitor and the C10 argument
fingerprint monitor (guard: NANITE_VERIF=1, output: $NV_PLUGIN_OUT).

usage (done by vm/props/c04.py in the thorough tier):
    NANITE_VERIF=1 NV_PLUGIN_OUT=out.json python -m pytest /repo/tests \
        -p vm.pytest_plugin -p no:cacheprovider -q
"""
import copy
import json
import os

_STATE = {}


def pytest_configure(config):
    if os.environ.get("NANITE_VERIF") != "1" or \
            not os.environ.get("NV_PLUGIN_OUT"):
        return
    import warnings
    from . import core, fitlab
    import nanite.indent as ni
    rec = core.Recorder("C04", "thorough", 0)
    tap = fitlab.MinimizeTap().install()
    orig = ni.Indentation.fit_model

    def fit_model(self, **kwargs):
        init = None
        if kwargs.get("params_initial") is not None:
            try:
                init = copy.deepcopy(kwargs["params_initial"])
            except Exception:
                init = None
        before = [(k, core.fp(v)) for k, v in sorted(kwargs.items())
                  if k in ("params_initial", "range_x", "method_kws",
                           "preprocessing", "preprocessing_options")]
        n0 = tap.nfit()
        out = orig(self, **kwargs)
        after = [(k, core.fp(v)) for k, v in sorted(kwargs.items())
                 if k in ("params_initial", "range_x", "method_kws",
                          "preprocessing", "preprocessing_options")]
        rec.event("repository tests: fit_model calls observed")
        case = {"source": "repository test-suite",
                "test": os.environ.get("PYTEST_CURRENT_TEST", "?"),
                "settings": {k: v for k, v in kwargs.items()
                             if k != "params_initial"}}
        rec.check(before == after, "suite/argument-mutated",
                  "fit_model modified one of its arguments", case)
        if tap.nfit() > n0 and "model_key" in self.fit_properties:
            rec.evaluated(dg=(case["test"], case["settings"]))
            with warnings.catch_warnings():
                warnings.simplefilter("ignore")
                try:
                    fitlab.check_consistency(rec, self, case, init=init,
                                             prefix="suite/")
                except BaseException as e:  # noqa
                    rec.inconclusive_because("plugin oracle crashed: %r" % e)
        return out
    ni.Indentation.fit_model = fit_model
    _STATE.update(rec=rec, tap=tap, orig=orig, ni=ni)


def pytest_unconfigure(config):
    if not _STATE:
        return
    _STATE["ni"].Indentation.fit_model = _STATE["orig"]
    _STATE["tap"].remove()
    with open(os.environ["NV_PLUGIN_OUT"], "w") as fd:
        json.dump(_STATE["rec"].dump(), fd)
