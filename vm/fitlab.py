"""Shared machinery for the fit properties (C01, C04, C05, C11, C03, C10):
the lmfit.minimize tap, fit-case generator, consistency and mask oracles."""
import copy
import sys

import numpy as np

from . import core, gen, ref, hmodels

EPS = np.finfo(float).eps


class MinimizeTap:
    """Replace lmfit.minimize (looked up at call time by nanite.fit and
    nanite.poc); record what nanite.fit hands to the optimiser and what it
    gets back.  The real minimiser is always called."""

    def __init__(self):
        import lmfit
        self.lmfit = lmfit
        self.orig = lmfit.minimize
        self.log = []
        self.poc_log = []
        self.counts = {}
        self.installed = False

    def install(self):
        tap = self
        orig = self.orig

        def minimize(fcn, params, method="leastsq", args=None, kws=None,
                     **kw):
            caller = sys._getframe(1).f_globals.get("__name__", "?")
            tap.counts[caller] = tap.counts.get(caller, 0) + 1
            entry = None
            if caller == "nanite.fit":
                entry = {"x": np.array(args[0], copy=True),
                         "y": np.array(args[1], copy=True),
                         "weight_cp": args[2],
                         "method": method,
                         "cp0": params["contact_point"].value,
                         "params0": core.fp(params),
                         "vary": {k: params[k].vary for k in params}}
            out = orig(fcn, params, method=method, args=args, kws=kws, **kw)
            if caller == "nanite.poc":
                tap.poc_log.append({"nfev": int(out.nfev),
                                    "success": bool(out.success),
                                    "aborted": bool(getattr(out, "aborted",
                                                            False))})
            if entry is not None:
                entry["params0_after"] = core.fp(params)
                entry["cp"] = out.params["contact_point"].value
                entry["chisqr"] = out.chisqr
                entry["nfev"] = out.nfev
                tap.log.append(entry)
            return out
        self.lmfit.minimize = minimize
        self.installed = True
        return self

    def remove(self):
        self.lmfit.minimize = self.orig
        self.installed = False

    def clear(self):
        self.log.clear()

    def nfit(self):
        return self.counts.get("nanite.fit", 0)

    def __enter__(self):
        return self.install()

    def __exit__(self, *a):
        self.remove()


# ---------------------------------------------------------------------------
# curves
# ---------------------------------------------------------------------------

def draw_curve_spec(rng, models=None, npts=(150, 400, 1000, 2500),
                    noise_snr=(0,), with_tip=None, clifford_identifiable=True):
    mk = (models or gen.SHIPPED)[int(rng.integers(len(models or gen.SHIPPED)))]
    prm = gen.draw_params(rng, mk)
    zmax = float(rng.uniform(1e-6, 4e-6))
    zmin = -float(rng.uniform(.5e-6, 3e-6))
    cp = float(rng.uniform(-.3, .3) * 1e-6)
    if mk == "power_layer_clifford_2009" and clifford_identifiable:
        # For E_S >> E_L the Clifford force becomes independent of E_S
        # ((E_S-E_L) P xi^n -> const): the sample modulus is then not
        # identifiable.  Recovery is claimed for E_S within a decade of E_L.
        prm["E_S"] = float(prm["E_L"] * 10 ** rng.uniform(-1, 1))
    if "R" in prm and mk != "power_layer_clifford_2009":
        # keep the depth below the tip radius for the sphere models
        prm["R"] = max(prm["R"], 1.05 * (cp - zmin))
    # baseline offset within half the force span (the stated basin starts
    # the baseline at 0)
    span = float(ref.force(mk, np.array([zmin]),
                           dict(prm, contact_point=cp, baseline=0.0))[0])
    spec = {"model": mk, "params": prm, "cp": cp,
            "baseline": float(rng.uniform(-.5, .5) * span),
            "n": int(npts[int(rng.integers(len(npts)))]),
            "zmax": zmax, "zmin": zmin,
            "law": ["uniform", "jitter", "quadratic", "jitter2"][
                int(rng.integers(4))],
            "snr": float(noise_snr[int(rng.integers(len(noise_snr)))]),
            "with_tip": bool(rng.integers(2)) if with_tip is None
            else with_tip,
            "noise_seed": int(rng.integers(2 ** 31))}
    return spec


def build_curve(spec):
    """-> (Indentation, truth) ; truth has 'params' (full), 'sigma', 'clean'"""
    rng = np.random.default_rng(spec["noise_seed"])
    full = dict(spec["params"], contact_point=spec["cp"],
                baseline=spec["baseline"])
    # noise level from the clean force span
    data0, truth = gen.make_arrays(
        np.random.default_rng(spec["noise_seed"]), spec["model"],
        spec["params"], cp=spec["cp"], baseline=spec["baseline"],
        n_app=spec["n"], n_ret=spec.get("n_ret", spec["n"]),
        zmax=spec["zmax"], zmin=spec["zmin"], law=spec["law"])
    span = float(np.max(truth["clean"]) - spec["baseline"])
    sigma = span / spec["snr"] if spec["snr"] else 0.0
    data = dict(data0)
    if sigma:
        # (height is derived from the clean force: the tip position of the
        #  noisy curve equals the clean abscissa exactly)
        data["force"] = data0["force"] + rng.normal(0, sigma,
                                                    data0["force"].size)
        data["height (measured)"] = data0["tip position"] \
            - data["force"] / 0.05
    idnt = gen.make_indentation(data, with_tip=spec["with_tip"])
    if not spec["with_tip"]:
        idnt.apply_preprocessing(["compute_tip_position"])
    truth.update(sigma=sigma, span=span, full=full, data=data,
                 travel=spec["zmax"] - spec["zmin"])
    return idnt, truth


def initial_params(rng, spec, truth, basin=True, fix=None):
    """initial guess inside the stated convergence basin"""
    mk = spec["model"]
    full = truth["full"]
    p = gen.nanite_params(mk, {k: v for k, v in full.items()})
    ek = "E_S" if mk == "power_layer_clifford_2009" else "E"
    if basin:
        half = .25 if mk == "power_layer_clifford_2009" else .5
        p[ek].value = full[ek] * 10 ** rng.uniform(-half, half)
        # contact point within +-min(0.2 um, 20% of the contact depth)
        width = min(2e-7, 0.2 * (full["contact_point"] - spec["zmin"]))
        p["contact_point"].value = full["contact_point"] \
            + rng.uniform(-width, width)
    p["baseline"].value = 0.0
    p["baseline"].vary = True
    if mk == "power_layer_clifford_2009":
        # E_L and t are not jointly identifiable with E_S from one curve
        p["E_L"].vary = False
        p["t"].vary = False
    for k in (fix or []):
        p[k].vary = False
    return p, ek


# ---------------------------------------------------------------------------
# C04 oracle: reported outputs are mutually consistent
# ---------------------------------------------------------------------------

def model_reference(mk, x, values):
    """force by the independent reference (shipped) or the module's own
    user function (harness / third party models)"""
    if mk in ref.FUNCS:
        return ref.force(mk, x, values)
    from nanite import model
    f = model.models_available[mk].module.model_func
    xd = x if x.size < 2 or x[0] >= x[-1] else x[::-1]
    out = f(xd, **values)
    return out if xd is x else out[::-1]


def check_consistency(rec, idnt, case, init=None, tap_entry=None,
                      prefix=""):
    """C04 oracle on a curve whose fit_model just ran an optimisation.

    init: lmfit.Parameters handed in by the caller (by value, before the
    call), used for the 'fixed parameters keep their value' clause."""
    fp = idnt.fit_properties
    k = float(fp.get("gcf_k", 1.0))
    mk = fp["model_key"]
    seg = np.asarray(idnt["segment"] == fp["segment"])
    x = np.asarray(idnt[fp["x_axis"]])
    y = np.asarray(idnt[fp["y_axis"]])
    P = prefix
    missing = [c for c in ("fit", "fit residuals", "fit range")
               if c not in idnt.columns]
    if missing:
        # (after a finished fit_model call the three result columns exist:
        #  NaN for an unsuccessful fit)
        rec.violation(P + "columns-missing",
                      "columns %s do not exist after fit_model (success=%r)"
                      % (missing, fp.get("success")), case)
        return
    fit = np.asarray(idnt["fit"])
    res = np.asarray(idnt["fit residuals"])
    rng_ = np.asarray(idnt["fit range"]).astype(bool)
    wcp = fp["weight_cp"]
    if not fp.get("success", False):
        rec.event("unsuccessful fits judged")
        rec.check(np.all(np.isnan(fit)) and np.all(np.isnan(res)),
                  P + "unsuccessful/stale-columns",
                  "success False but fit/residual columns hold numbers", case)
        rec.check("params_fitted" not in fp, P + "unsuccessful/params_fitted",
                  "success False but params_fitted present", case)
        return False
    rec.event("successful fits judged")
    pf = fp["params_fitted"]
    vals = {n: pf[n].value for n in pf}
    cpk = vals["contact_point"] * k
    want = model_reference(mk, k * x[seg], dict(vals, contact_point=cpk))
    b = vals["baseline"]
    scale = max(float(np.max(np.abs(want - b))), abs(b), 1e-300)
    dev = float(np.max(np.abs(fit[seg] - want))) if seg.any() else 0.0
    floor = 0.0
    if mk == "power_layer_clifford_2009":
        # E* = E_L + (E_S - E_L) * frac cancels catastrophically when the
        # optimiser drives E_S towards 0: round-off of order eps * E_L-force
        dmax = max(float(np.max(cpk - k * x[seg])), 0.0) if seg.any() else 0.0
        floor = 64 * EPS * 4 / 3 * abs(vals["E_L"]) * np.sqrt(vals["R"]) \
            * dmax ** 1.5
    amp = 1.0
    if "alpha" in vals and vals["alpha"]:
        # tan(alpha) near 90 degrees amplifies the last-bit difference
        # between alpha*pi/180 and radians(alpha): condition number of tan
        th = np.radians(vals["alpha"])
        t = np.tan(th)
        amp = 1.0 + abs(th * (1 + t * t) / t)
    rec.maximum(P + "fit column vs model(reported params), rel",
                max(dev - floor, 0.0) / scale / amp)
    rec.check(dev <= 1e-12 * amp * scale + floor,
              P + "fit-column/not-model-of-reported",
              "max |fit - model(reported params)| = %.3e (scale %.3e)"
              % (dev, scale), case)
    rec.check(np.all(np.isnan(fit[~seg])) and np.all(np.isnan(res[~seg])),
              P + "columns/not-nan-outside-segment",
              "fit or residual column holds numbers outside the segment",
              case)
    # residuals
    w = ref.cp_weights(k * x[seg], cpk, wcp)
    wres = (y[seg] - fit[seg]) * w
    rs = max(float(np.max(np.abs(wres))), 1e-300)
    rdev = float(np.max(np.abs(res[seg] - wres)))
    # weights are evaluated with the internal (k-scaled) contact point,
    # reported cp*k reproduces it to 1 ulp -> tiny relative slack
    yscale = max(float(np.max(np.abs(y[seg] - fit[seg]))), 1e-300)
    rec.maximum(P + "residual column vs (data-fit)*w, rel", rdev / yscale)
    rec.check(rdev <= 1e-9 * yscale, P + "residuals/definition",
              "max |residuals - (data-fit)*weights| = %.3e (scale %.3e, "
              "weight_cp=%r, k=%r)" % (rdev, rs, wcp, k), case)
    # chi square over the points used
    chi = float(np.sum(res[rng_] ** 2))
    cdev = abs(chi - fp["chi_sqr"])
    rec.maximum(P + "chi_sqr vs sum(res[range]^2), rel",
                cdev / max(chi, 1e-24 * float(np.sum(y[rng_] ** 2)), 1e-300))
    floor = 1e-24 * float(np.sum(y[rng_] ** 2)) + 1e-300
    rec.check(cdev <= 1e-9 * max(chi, fp["chi_sqr"]) + floor,
              P + "chi_sqr/definition",
              "chi_sqr %r != sum of squared residuals over the used points "
              "%r" % (fp["chi_sqr"], chi), case)
    rec.check(np.all(seg[rng_]), P + "fit-range/outside-segment",
              "fit range selects points of the other segment", case)
    # parameters
    if init is None:
        init = fp.get("params_initial")
    for n in pf:
        par = pf[n]
        if par.expr is not None:
            q = copy.deepcopy(pf)
            q.update_constraints()
            rec.event("expression parameters judged")
            rec.check(np.isclose(q[n].value, par.value, rtol=1e-12, atol=0),
                      P + "params/expression-violated",
                      "%s = %r but expression '%s' gives %r"
                      % (n, par.value, par.expr, q[n].value), case)
        elif not par.vary:
            v0 = init[n].value
            if n == "contact_point":
                ok = abs(par.value - v0) <= 2 * EPS * abs(v0)
            else:
                ok = par.value == v0
            rec.event("fixed parameters judged")
            rec.check(ok, P + "params/fixed-changed",
                      "fixed %s: initial %r, reported %r"
                      % (n, v0, par.value), case)
        else:
            # bounds are the caller's (contact point: measured units)
            lo, hi = init[n].min, init[n].max
            v = par.value
            slack = 4 * EPS * abs(v)
            rec.event("varied parameters judged")
            if np.isfinite(lo) or np.isfinite(hi):
                rec.event("varied parameters with finite bounds judged")
            rec.check(lo - slack <= v <= hi + slack,
                      P + "params/out-of-bounds",
                      "%s = %r outside [%r, %r]" % (n, v, lo, hi), case)
    return True


# ---------------------------------------------------------------------------
# C05 oracle: exactly the requested points are fitted
# ---------------------------------------------------------------------------

def check_points(rec, idnt, kw, log, case, prefix=""):
    """`log`: MinimizeTap entries of this fit_model call (nanite.fit only)"""
    fp = idnt.fit_properties
    P = prefix
    k = float(fp.get("gcf_k", 1.0))
    x = np.asarray(idnt[fp["x_axis"]])
    seg = np.asarray(idnt["segment"] == fp["segment"])
    mask = np.asarray(idnt["fit range"]).astype(bool)
    a, b = fp["range_x"]
    if not fp.get("success", False) or not log:
        return None
    last = log[-1]
    rec.check(np.array_equal(last["x"], x[mask] * k),
              P + "optimised-points/not-the-reported-range",
              "abscissa handed to the optimiser (%d pts) != k*x[fit range] "
              "(%d pts)" % (last["x"].size, int(mask.sum())), case)
    xm = x[mask]
    for name, got, want in [("xmin", fp["xmin"], xm.min()),
                            ("xmax", fp["xmax"], xm.max())]:
        rec.check(abs(got - want) <= 4 * EPS * abs(want),
                  P + "xmin-xmax/not-extremes-in-measured-units",
                  "%s = %r, extreme abscissa of used points %r (k=%r)"
                  % (name, got, want, k), case)
    if fp["optimal_fit_edelta"]:
        ns = fp["optimal_fit_num_samples"]
        d_arr = np.asarray(fp["optimal_fit_delta_array"])
        e_arr = np.asarray(fp["optimal_fit_E_array"])
        dopt = fp["optimal_fit_delta"]
        rec.event("plateau fits judged")
        rec.check(d_arr.size == ns and e_arr.size == ns,
                  P + "plateau/sample-count",
                  "scan arrays have %d/%d entries, %d requested"
                  % (d_arr.size, e_arr.size, ns), case)
        dd = np.diff(d_arr)
        rec.check(bool(np.all(dd > 0) or np.all(dd < 0)),
                  P + "plateau/grid-not-monotonic",
                  "depth grid not strictly monotonic", case)
        rec.check(bool(d_arr.min() <= dopt <= d_arr.max()),
                  P + "plateau/optimum-outside-scan",
                  "optimal delta %r outside scanned [%r, %r]"
                  % (dopt, d_arr.min(), d_arr.max()), case)
        hi = np.max([a, b])
        exp = seg & (x >= dopt) & (x <= hi)
        rec.check(np.array_equal(mask, exp), P + "plateau/mask",
                  "final mask != segment & [optimal delta, max(range_x)]: "
                  "%d vs %d points" % (int(mask.sum()), int(exp.sum())), case)
        rec.check(len(log) <= ns + 1, P + "plateau/optimisation-count",
                  "%d optimisations for %d samples" % (len(log), ns), case)
        return "plateau"
    if fp["range_type"] == "absolute":
        lo, hi = min(a, b), max(a, b)
        exp = seg.copy() if a == b else seg & (x >= lo) & (x <= hi)
        rec.event("absolute-range fits judged")
        rec.check(np.array_equal(mask, exp), P + "absolute/mask",
                  lambda: "mask has %d points, closed interval [%r, %r] on "
                  "the segment has %d; first difference at sample %d "
                  "(x=%r)" % (int(mask.sum()), lo, hi, int(exp.sum()),
                              int(np.argmax(mask != exp)),
                              x[int(np.argmax(mask != exp))]), case)
        return "absolute"
    # relative cp
    rec.event("relative-cp fits judged")
    if len(log) >= 2:
        cp_prev = log[-2]["cp"] / k
        exp = seg & (x >= cp_prev + min(a, b)) & (x <= cp_prev + max(a, b))
        rec.check(np.array_equal(mask, exp), P + "relative/mask-not-anchored",
                  "mask (%d pts) != segment & [cp+a, cp+b] anchored at the "
                  "previously fitted contact point (%d pts)"
                  % (int(mask.sum()), int(exp.sum())), case)
        cpf = fp["params_fitted"]["contact_point"].value
        delta = 1e-9 * (x.max() - x.min())
        if abs(cpf - cp_prev) < delta:
            rec.event("relative-cp fits converged")
            lo, hi = cpf + min(a, b), cpf + max(a, b)
            exp2 = seg & (x >= lo) & (x <= hi)
            diff = mask != exp2
            near = (np.abs(x - lo) <= delta) | (np.abs(x - hi) <= delta)
            rec.check(not np.any(diff & ~near),
                      P + "relative/not-anchored-at-fitted-cp",
                      "converged, but mask differs from [cp+a, cp+b] away "
                      "from the bounds", case)
    else:
        rec.violation(P + "relative/single-pass",
                      "relative cp fit ran %d optimisation(s)" % len(log),
                      case)
    return "relative"


ODD_KINDS = ("E-held-off", "cp-fixed-anywhere", "x-axis-height",
             "narrow-absolute-range", "baseline-fixed-off",
             "cp-fixed-deep-end")


def draw_odd_fit(rng):
    """description (plain values) of an unusual but legitimate fit request"""
    return {"kind": ODD_KINDS[int(rng.integers(len(ODD_KINDS)))],
            "u": float(rng.random()), "v": float(rng.random()),
            "w": float(rng.random())}


def odd_fit(idnt, mk, odd):
    """Fit `idnt` (already fitted or at least preprocessed) in a way that
    drives the result into a corner: contact point next to either end of the
    approach, few points in the indentation or baseline part, other abscissa.
    Raises whatever fit_model raises."""
    from nanite import model as nmodel
    p = nmodel.models_available[mk].get_parameter_defaults()
    fp = idnt.fit_properties
    x = np.asarray(idnt["tip position"])[np.asarray(idnt["segment"]) == 0]
    lo, hi = float(np.min(x)), float(np.max(x))
    kw = dict(model_key=mk, params_initial=p, segment=0, range_x=[0, 0],
              range_type="absolute", x_axis="tip position",
              weight_cp=0 if odd["w"] < .7 else 5e-7)
    kind = odd["kind"]
    if kind == "E-held-off":
        e0 = fp["params_fitted"]["E"].value if "params_fitted" in fp \
            else p["E"].value
        p["E"].value = float(np.clip(e0 * 10 ** (-3 + 7 * odd["u"]),
                                     1e-6, 1e12))
        p["E"].vary = False
    elif kind == "cp-fixed-anywhere":
        p["contact_point"].value = lo - .1 * (hi - lo) \
            + 1.2 * (hi - lo) * odd["u"]
        p["contact_point"].vary = False
    elif kind == "cp-fixed-deep-end":
        # a handful of samples (1..10) left in the indentation part
        xs = np.sort(x)
        j = min(xs.size - 1, 1 + int(10 * odd["u"]))
        p["contact_point"].value = float(xs[j - 1] + (.2 + .6 * odd["v"])
                                         * (xs[j] - xs[j - 1]))
        p["contact_point"].vary = False
    elif kind == "x-axis-height":
        kw["x_axis"] = "height (measured)"
    elif kind == "narrow-absolute-range":
        c = lo + (hi - lo) * odd["u"]
        h = (hi - lo) * (.01 + .2 * odd["v"])
        kw["range_x"] = [c - h, c + h]
    else:
        f = np.asarray(idnt["force"])
        p["baseline"].value = float(np.max(np.abs(f)) * (2 * odd["u"] - 1))
        p["baseline"].vary = False
    idnt.fit_model(**kw)
    return kw
